--------------------------- MODULE Consumers_Trace ---------------------------
(***************************************************************************)
(* Judge of C15 on rows recorded from real runs.  One state per row; every *)
(* violated clause is printed as                                           *)
(*    <<"VERDICT", row id, clause[/family], detail>>                       *)
(* every disagreement between an observed report and the automaton (S) of  *)
(* Consumers.tla run on the recorded stream -- informational -- as         *)
(*    <<"DIVERGE", row id, what>>                                          *)
(* and a run that died outside a formatter callback (not C15's business) as*)
(*    <<"NOTJUDGED", row id, why>>.                                        *)
(*                                                                         *)
(* row: id, prog (flat table of run/cases.py: kind parent steps[o, def]),  *)
(*  cfg [dry ..], formats (names of the built-in formatters of the run, in *)
(*  order, behind the recording one), events (the stream of the recording  *)
(*  formatter: name el pos status undefined n), last_k (kind of the last   *)
(*  event of the whole log), end [ran (came to its end, nothing escaped),  *)
(*  escaped (exception type), status, step_status], reports (plug-in       *)
(*  run/reports_c15.py): json [present valid features], readback [done     *)
(*  parse_exc exc features], plain / p1 / p2 / p3 [present lines],         *)
(*  tables [json model jtext mtext].                                       *)
(*  Read-back: json_parser.parse(file) must not raise (parse_exc) and the   *)
(*  returned model must carry integer line numbers (line_is_text: with     *)
(*  text, str(feature.location) raises TypeError) -- both were defects of  *)
(*  the code and are repaired; a return is a plain violation.              *)
(***************************************************************************)
EXTENDS Consumers, Json, IOUtils
Rows == ndJsonDeserialize(IOEnv.TRACE_FILE)
VARIABLE i
Init == i = 1

Scenario(r, el) == el \in DOMAIN r.prog /\ r.prog[el].kind = "scenario"
XOf(r) == [dry |-> r.cfg.dry,
           nsteps |-> [el \in DOMAIN r.prog |-> Len(r.prog[el].steps)],
           defd |-> [el \in DOMAIN r.prog |-> [p \in DOMAIN r.prog[el].steps |-> r.prog[el].steps[p].def]],
           st |-> r.end.status, sst |-> r.end.step_status]
\* the recorded callbacks as events of Consumers.tla (bad: since the repair of DESIGN section 8 #11 a MatchWithError is an
\* ordinary match for every formatter, the flag is not needed on recorded streams)
Events(r) == [k \in DOMAIN r.events |-> LET e == r.events[k] IN FE(e.name, e.el, e.pos, e.status, e.undefined, FALSE, e.n)]

Has(r, name) == \E k \in DOMAIN r.formats : r.formats[k] = name

\* ---------------------------------------------------------------- a run that died
CrashOf(name, evs, X) ==
   CASE name \in {"json", "json.pretty"} -> JsonRun(evs, X).crash
     [] name = "plain" -> PlainRun(evs, X).crash
     [] name \in {"progress2", "progress3"} -> ProgRun(evs).crash
     [] name = "progress" -> SProgRun(evs, X).crash
     [] OTHER -> ""
\* the culprit (signature only): the first formatter of the run whose automaton crashes on the recorded stream
Died(r) ==
   LET evs == Events(r)
       X == XOf(r)
       cr == [k \in DOMAIN r.formats |-> CrashOf(r.formats[k], evs, X)]
       hit == {k \in DOMAIN cr : cr[k] # ""}
   IN IF hit = {} THEN {<<"C15.no_crash", "unattributed|at=" \o (IF evs = <<>> THEN "start" ELSE evs[Len(evs)].name) \o "|exc=" \o r.end.escaped>>}
      ELSE LET k == CHOOSE x \in hit : \A y \in hit : x <= y IN
           {<<"C15.no_crash", "fmt=" \o r.formats[k] \o "|exc=" \o r.end.escaped>>}

\* ---------------------------------------------------------------- C15.json_mirror, tables and doc-strings: those the JSON
\* report holds for the steps of its scenario elements = those of the model after the run for the shown scenarios
\* (tables = Seq([el, pos, headings, rows]), texts = Seq([el, pos, lines]), both in document order), cell by cell
TablesMirror(t, a) ==
   LET m == SelectSeq(t.model, LAMBDA x : x.el \in a.scens)
       mt == SelectSeq(t.mtext, LAMBDA x : x.el \in a.scens)
       where(q) == [k \in DOMAIN q |-> <<q[k].el, q[k].pos>>]
   IN (IF where(t.json) # where(m) THEN {<<"C15.json_mirror", "steps_with_table">>}
       ELSE IF \E k \in DOMAIN m : t.json[k].headings # m[k].headings THEN {<<"C15.json_mirror", "table_headings">>}
       ELSE IF \E k \in DOMAIN m : t.json[k].rows # m[k].rows THEN {<<"C15.json_mirror", "table_cells">>}
       ELSE {})
      \cup (IF where(t.jtext) # where(mt) THEN {<<"C15.json_mirror", "steps_with_doc_string">>}
            ELSE IF \E k \in DOMAIN mt : t.jtext[k].lines # mt[k].lines THEN {<<"C15.json_mirror", "doc_string_lines">>}
            ELSE {})

\* ---------------------------------------------------------------- a run that came to its end
Verdicts(r) ==
   IF ~r.end.ran THEN (IF r.last_k = "fmt" THEN Died(r) ELSE {})
   ELSE LET evs == Events(r)
            X == XOf(r)
            a == Analyse(evs)
            rp == r.reports
            J == rp.json.features
            hasJ == rp.json.present /\ rp.json.valid
        IN Grammar(evs, X, a)
           \cup (IF rp.json.present /\ ~rp.json.valid THEN {<<"C15.json_valid", "text">>} ELSE {})
           \cup (IF hasJ THEN JsonMirror(J, X, a) \cup TablesMirror(rp.tables, a) ELSE {})
           \cup (IF hasJ /\ rp.readback.done
                 THEN
                      (IF rp.readback.parse_exc # ""
                       THEN {<<"C15.json_readback", "parse:" \o rp.readback.parse_exc>>} ELSE {})
                      \cup (IF rp.readback.line_is_text THEN {<<"C15.json_readback", "line_is_text">>} ELSE {})
                      \cup (IF rp.readback.exc # "" THEN {<<"C15.json_readback", "parse_features:" \o rp.readback.exc>>}
                            ELSE ReadBackClause(rp.readback.features, J)
                                 \cup (IF rp.readback.tables # rp.tables.json THEN {<<"C15.json_readback", "tables">>} ELSE {}))
                 ELSE {})
           \cup (IF rp.plain.present THEN PlainOnce(rp.plain.lines, X, a) ELSE {})
           \cup ProgressOnce(rp.p2.lines, rp.p3.lines, rp.p2.present, rp.p3.present, X, a)
           \cup Agree(J, hasJ, rp.plain.lines, rp.plain.present, rp.p3.lines, rp.p3.present, X, a)
           \cup ScenarioMarks(rp.p1.lines, rp.p1.present, X, a)
           \cup (IF rp.error # "" THEN {<<"C15.no_crash", "report_unreadable:" \o rp.error>>} ELSE {})

\* ---------------------------------------------------------------- conformance of the automata (informational)
Diverges(r) ==
   IF ~r.end.ran THEN {}
   ELSE LET evs == Events(r)
            X == XOf(r)
            rp == r.reports
            j == JsonRun(evs, X)
        IN (IF rp.json.present /\ rp.json.valid /\ (j.crash # "" \/ j.out # rp.json.features) THEN {"json"} ELSE {})
           \cup (IF rp.json.present /\ rp.json.valid # (j.crash = "" /\ ToksValid(j.toks)) THEN {"json_text"} ELSE {})
           \cup (IF rp.json.present /\ rp.json.valid /\ rp.readback.done /\ rp.readback.exc = ""
                    /\ ReadBack(rp.json.features) # rp.readback.features THEN {"readback"} ELSE {})
           \cup (IF rp.plain.present /\ PlainRun(evs, X).lines # rp.plain.lines THEN {"plain"} ELSE {})
           \cup (IF rp.p2.present /\ ProgRun(evs).p2 # rp.p2.lines THEN {"progress2"} ELSE {})
           \cup (IF rp.p3.present /\ ProgRun(evs).p3 # rp.p3.lines THEN {"progress3"} ELSE {})
           \cup (IF rp.p1.present /\ SProgRun(evs, X).p1 # rp.p1.lines THEN {"progress"} ELSE {})

Next == /\ i <= Len(Rows)
        /\ \A v \in Verdicts(Rows[i]) : PrintT(<<"VERDICT", Rows[i].id, v[1], v[2]>>)
        /\ \A x \in Diverges(Rows[i]) : PrintT(<<"DIVERGE", Rows[i].id, x>>)
        /\ (~Rows[i].end.ran /\ Rows[i].last_k # "fmt") => PrintT(<<"NOTJUDGED", Rows[i].id, "died_outside_formatter_callback:" \o Rows[i].end.escaped>>)
        /\ i' = i + 1
Spec == Init /\ [][Next]_i
Done == PrintT(<<"DONE", Len(Rows), TLCGet("stats").diameter>>)
=============================================================================
