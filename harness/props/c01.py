"""C01 -- run verdict.  (a) shared run stage: clauses C01.false_green / false_red / crash as invariants of Run.tla and on
the traces of the real ModelRunner; (b) C01.exit_code: the same cases through `python -m behave` child processes."""
import json
import random
from concurrent.futures import ThreadPoolExecutor

from props import runprops
from run import stage, cases as C, cli, drive, gen as G
from vlib import trace


def _cli_rows(chk, n):
    rnd = random.Random(chk.seed + 17)
    pl = stage.plan(chk.tier, chk.seed)
    picks = rnd.sample(range(len(pl)), min(n, len(pl)))
    jobs = []
    for i in picks:
        prog, cfgs, faults = pl[i]
        cfg = dict(rnd.choice(cfgs), retry=False)       # (the child project has no auto-retry patch)
        fault = rnd.choice(faults)
        case, flat = C.make_case(1, prog, [cfg], [fault])
        jobs.append({"prog": prog, "flat": flat, "cfg": cfg, "fault": fault, "fault_kind": "exc", "tla": case})
    # an exception / a KeyboardInterrupt in the very first hook (before_all): whatever escapes the runner must still give a
    # non-zero exit code
    for i in picks[:6]:
        prog, cfgs, faults = pl[i]
        cfg = dict(cfgs[0], retry=False, dry=False)
        case, flat = C.make_case(1, prog, [cfg], [[1, 0]])
        jobs.append({"prog": prog, "flat": flat, "cfg": cfg, "fault": [1, 0], "fault_kind": "kbd" if len(jobs) % 3 else "exc", "tla": case})

    def one(job):
        return cli.run_cli(job), drive.run_case(job)
    with ThreadPoolExecutor(max_workers=8) as ex:
        outs = list(ex.map(lambda j: cli.run_cli(j), jobs))
    rows = []
    for k, (job, out) in enumerate(zip(jobs, outs)):
        inproc = drive.run_case(job)
        events = []
        for e in out["events"]:
            events.append({"k": e["k"], "name": e.get("name", ""), "el": e.get("el", 0), "tag": e.get("tag", ""), "raised": bool(e.get("raised", False)),
                           "pos": e.get("pos", 0), "outcome": e.get("outcome", ""), "status": "", "undefined": False, "cid": e.get("cid", 0), "att": 1})
        end = inproc["end"]
        rows.append({"id": k + 1, "prog": job["tla"]["prog"], "cfg": job["tla"]["cfgs"][0], "hookcl": job["tla"]["hookcl"], "skips": job["tla"]["skips"], "events": events, "exit": out["exit"],
                     "end": {"ran": True, "verdict": end["verdict"], "status": end["status"], "step_status": end["step_status"], "hook_failed": end["hook_failed"]},
                     "base": {"ran": False}})
        if [(e["k"], e["name"], e["el"], e["pos"]) for e in events] != [(e["k"], e["name"], e["el"], e["pos"]) for e in inproc["events"] if e["k"] in ("hook", "step", "cleanup", "sub")]:
            chk.divergences += 1
    return jobs, outs, rows


def run(chk):
    runprops.apply_shared(chk, ["C01."])
    jobs, outs, rows = _cli_rows(chk, 40 if chk.quick() else 800)
    verdicts = trace.judge_rows(chk, "RunCli_Trace", rows, chunks=8)
    chk.impl_traces += len(rows)
    chk.extra["cli_child_runs"] = len(rows)
    chk.extra["cli_exit_codes"] = {str(c): sum(1 for o in outs if o["exit"] == c) for c in sorted({o["exit"] for o in outs})}
    for rid, vs in verdicts.items():
        job, out = jobs[rid - 1], outs[rid - 1]
        for v in vs:
            c = job["cfg"]
            chk.violation("C01.exit_code", "C01.exit_code|exit=%d|dry=%d|stop=%d" % (out["exit"], int(c["dry"]), int(c["stop"])),
                          "python -m behave exit code %d; cfg=%s fault=%s prog=%s stderr=%s" % (out["exit"], json.dumps(c, sort_keys=True), job["fault"], json.dumps(job["prog"]), out["stderr_tail"][-200:]),
                          {"prog": job["prog"], "cfg": c, "fault": job["fault"], "cli": True})


def replay(chk, payload):
    rp = payload["replay"]
    if rp.get("cli"):
        case, flat = C.make_case(1, rp["prog"], [rp["cfg"]], [rp["fault"]])
        job = {"prog": rp["prog"], "flat": flat, "cfg": rp["cfg"], "fault": rp["fault"], "fault_kind": "exc"}
        out = cli.run_cli(job)
        inproc = drive.run_case(job)
        events = [{"k": e["k"], "name": e.get("name", ""), "el": e.get("el", 0), "tag": e.get("tag", ""), "raised": bool(e.get("raised", False)),
                   "pos": e.get("pos", 0), "outcome": e.get("outcome", ""), "status": "", "undefined": False, "cid": e.get("cid", 0), "att": 1} for e in out["events"]]
        end = inproc["end"]
        row = {"id": 1, "prog": case["prog"], "cfg": case["cfgs"][0], "skips": case["skips"], "hookcl": case["hookcl"], "events": events, "exit": out["exit"],
               "end": {"ran": True, "verdict": end["verdict"], "status": end["status"], "step_status": end["step_status"], "hook_failed": end["hook_failed"]},
               "base": {"ran": False}}
        verdicts = trace.judge_rows(chk, "RunCli_Trace", [row], chunks=1)
        chk.impl_traces = 1
        chk.sample({"replayed": rp, "exit": out["exit"]})
        for vs in verdicts.values():
            for v in vs:
                c = rp["cfg"]
                chk.violation("C01.exit_code", "C01.exit_code|exit=%d|dry=%d|stop=%d" % (out["exit"], int(c["dry"]), int(c["stop"])), "replayed", rp)
    else:
        runprops.replay_case(chk, payload, ["C01."])
