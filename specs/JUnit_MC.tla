----------------------------- MODULE JUnit_MC -----------------------------
(***************************************************************************)
(* Design-level check of C16 (counters / test cases): one state per small  *)
(* abstract feature after a run.  A feature is a shape -- items: plain     *)
(* scenario "s", rule with n scenarios "r", outline with n rows "o", rule  *)
(* holding an outline with n rows "x" (n <= 2), <= MaxScen scenarios --    *)
(* and one descriptor per scenario: final status, final step statuses      *)
(* (2 steps) and the cause: failing step k with status failed / error /    *)
(* undefined / pending / hook_error, a raising hook of the scenario        *)
(* (before: steps untested; after: with passed / failed / errored steps),  *)
(* a raising cleanup of the scenario's layer with or without a failing     *)
(* step, skipped, untested, and the dry-run combinations.  Shapes of       *)
(* weight <= FullUpTo take every descriptor, heavier ones the core set.    *)
(* The reporter automaton of JUnit.tla is run with show_skipped on and off *)
(* and the clauses (P) are evaluated on its output.                        *)
(* start -> one state per shape (spreads the work over the workers) ->     *)
(* one state per descriptor assignment.                                    *)
(***************************************************************************)
EXTENDS JUnit, Json
CONSTANTS MaxScen, FullUpTo, EmitAllUpTo, EmitMod

\* ---------------------------------------------------------------- scenario descriptors
D(ix, name, st, steps, hookmsg, hookraised, cleanup, dry) ==
   [ix |-> ix, name |-> name, st |-> st, steps |-> steps, hookmsg |-> hookmsg, hookraised |-> hookraised, cleanup |-> cleanup, dry |-> dry]
StepCause(ix, x) == {D(ix, x \o "1", IF x = "failed" THEN "failed" ELSE "error", <<x, "skipped">>, FALSE, x = "hook_error", FALSE, FALSE),
                     D(ix + 1, x \o "2", IF x = "failed" THEN "failed" ELSE "error", <<"passed", x>>, FALSE, x = "hook_error", FALSE, FALSE)}
CoreDescs == {
   D(1, "pass", "passed", <<"passed", "passed">>, FALSE, FALSE, FALSE, FALSE),
   D(2, "failed1", "failed", <<"failed", "skipped">>, FALSE, FALSE, FALSE, FALSE),
   D(3, "undefined1", "error", <<"undefined", "skipped">>, FALSE, FALSE, FALSE, FALSE),
   D(4, "cl", "error", <<"passed", "passed">>, FALSE, FALSE, TRUE, FALSE),                  \* only a cleanup raised
   D(5, "hk_before", "hook_error", <<"untested", "untested">>, TRUE, TRUE, FALSE, FALSE),   \* before_scenario / before_tag raised
   D(6, "skip", "skipped", <<"skipped", "skipped">>, FALSE, FALSE, FALSE, FALSE),
   D(7, "untested", "untested", <<"untested", "untested">>, FALSE, FALSE, FALSE, FALSE),
   D(8, "dry_undefined2", "untested", <<"untested", "undefined">>, FALSE, FALSE, FALSE, TRUE) }
StepCauses == StepCause(31, "failed") \cup StepCause(33, "error") \cup StepCause(35, "undefined") \cup StepCause(37, "pending") \cup StepCause(39, "hook_error")
AllDescs == CoreDescs
   \cup {d \in StepCauses : d.name \notin {c.name : c \in CoreDescs}}
   \cup { D(9, "cl_failed1", "error", <<"failed", "skipped">>, FALSE, FALSE, TRUE, FALSE),  \* failed step, then the cleanup raised
          D(10, "cl_failed2", "error", <<"passed", "failed">>, FALSE, FALSE, TRUE, FALSE),
          D(11, "cl_error1", "error", <<"error", "skipped">>, FALSE, FALSE, TRUE, FALSE),    \* an errored step exists: no crash
          D(12, "hk_after", "hook_error", <<"passed", "passed">>, TRUE, TRUE, FALSE, FALSE),
          D(13, "hk_after_failed1", "hook_error", <<"failed", "skipped">>, TRUE, TRUE, FALSE, FALSE),
          D(14, "hk_after_failed2", "hook_error", <<"passed", "failed">>, TRUE, TRUE, FALSE, FALSE),
          D(15, "hk_after_error2", "hook_error", <<"passed", "error">>, TRUE, TRUE, FALSE, FALSE),
          D(16, "hk_cl", "error", <<"passed", "passed">>, TRUE, TRUE, TRUE, FALSE),           \* hook raised, then the cleanup
          D(17, "skip_by_step", "skipped", <<"passed", "skipped">>, FALSE, FALSE, FALSE, FALSE),
          D(18, "pending_warn", "passed", <<"pending_warn", "passed">>, FALSE, FALSE, FALSE, FALSE),
          D(19, "dry_undefined1", "error", <<"undefined", "untested">>, FALSE, FALSE, FALSE, TRUE) }
DescsFor(w) == IF w <= FullUpTo THEN AllDescs ELSE CoreDescs

\* ---------------------------------------------------------------- shapes
ItemSet == {[k |-> "s", n |-> 1]} \cup {[k |-> kk, n |-> nn] : kk \in {"r", "o", "x"}, nn \in 1..2}
RECURSIVE ItemSeqs(_)
ItemSeqs(w) == {<<>>} \cup UNION {{<<it>> \o rest : rest \in ItemSeqs(w - it.n)} : it \in {x \in ItemSet : x.n <= w}}
RECURSIVE Weight(_)
Weight(its) == IF its = <<>> THEN 0 ELSE Head(its).n + Weight(Tail(its))
\* Gherkin: a Rule reaches to the next Rule or to the end of the file, so plain scenarios / outlines come first
RuleLast(its) == \A a, b \in DOMAIN its : (a < b /\ its[a].k \in {"r", "x"}) => its[b].k \in {"r", "x"}
Shapes == {its \in ItemSeqs(MaxScen) \ {<<>>} : RuleLast(its)}

E(kind, parent) == [kind |-> kind, parent |-> parent]
RECURSIVE AddItems(_,_,_)
AddItems(acc, its, k) ==
   IF k > Len(its) THEN acc
   ELSE LET it == its[k]
            n0 == Len(acc)
            Rows(parent, n) == [j \in 1..n |-> E("scenario", parent)]
            new == CASE it.k = "s" -> <<E("scenario", 1)>>
                     [] it.k = "r" -> <<E("rule", 1)>> \o Rows(n0 + 1, it.n)
                     [] it.k = "o" -> <<E("outline", 1)>> \o Rows(n0 + 1, it.n)
                     [] it.k = "x" -> <<E("rule", 1), E("outline", n0 + 1)>> \o Rows(n0 + 2, it.n)
        IN AddItems(acc \o new, its, k + 1)
Table(sh) == AddItems(<<E("feature", 0)>>, sh, 1)

\* ---------------------------------------------------------------- roll-up of the code (model.py compute_status)
RECURSIVE ContFrom(_,_,_,_)
ContFrom(cs, k, skipped, passed) ==          \* ScenarioContainer.compute_status (feature, rule) without hook failure
   IF k > Len(cs) THEN (IF skipped THEN "skipped" ELSE "passed")
   ELSE LET s == cs[k] IN
        IF s \in ErrorClass THEN "error"
        ELSE IF s = "failed" THEN "failed"
        ELSE IF s = "untested" THEN (IF passed > 0 THEN "failed" ELSE "untested")
        ELSE ContFrom(cs, k + 1, skipped /\ s = "skipped", IF s = "passed" THEN passed + 1 ELSE passed)
RECURSIVE OutlineFrom(_,_,_,_)
OutlineFrom(cs, k, nskipped, npassed) ==     \* ScenarioOutline.compute_status
   IF k > Len(cs) THEN (IF nskipped > 0 /\ nskipped = Len(cs) THEN "skipped" ELSE "passed")
   ELSE IF cs[k] \in ErrorClass THEN "error" ELSE IF cs[k] = "failed" THEN "failed"
   ELSE IF cs[k] = "untested" THEN (IF npassed > 0 THEN "failed" ELSE "untested")
   ELSE IF cs[k] = "skipped" THEN OutlineFrom(cs, k + 1, nskipped + 1, npassed)
   ELSE OutlineFrom(cs, k + 1, nskipped, npassed + 1)

\* the part of the model that depends on the shape only (built once per shape): element table and, per element, the
\* ordinal of the scenario it is (0 = no scenario)
Skeleton(shape) ==
   LET T    == Table(shape)
       N    == Len(T)
       ids  == [i \in 1..N |-> i]
   IN [prog |-> [el \in 1..N |-> [kind |-> T[el].kind, parent |-> T[el].parent,
                                  children |-> SelectSeq(ids, LAMBDA e : T[e].parent = el)]],
       nth  |-> [el \in 1..N |-> IF T[el].kind = "scenario" THEN Cardinality({e \in 1..el : T[e].kind = "scenario"}) ELSE 0]]
Model(skel, descs) ==
   LET N == Len(skel.prog)
       kids(el) == skel.prog[el].children
       IsSc(el) == skel.nth[el] # 0
       d(el) == descs[skel.nth[el]]
       RECURSIVE St(_)
       St(el) == CASE IsSc(el) -> d(el).st
                   [] skel.prog[el].kind = "outline" -> OutlineFrom([j \in DOMAIN kids(el) |-> St(kids(el)[j])], 1, 0, 0)
                   [] OTHER -> ContFrom([j \in DOMAIN kids(el) |-> St(kids(el)[j])], 1, TRUE, 0)
   IN [prog |-> skel.prog,
       status |-> [el \in 1..N |-> St(el)],
       steps |-> [el \in 1..N |-> IF IsSc(el) THEN d(el).steps ELSE <<>>],
       hookmsg |-> [el \in 1..N |-> IsSc(el) /\ d(el).hookmsg],
       hookraised |-> [el \in 1..N |-> IsSc(el) /\ d(el).hookraised],
       cleanup |-> [el \in 1..N |-> IsSc(el) /\ d(el).cleanup]]

\* ---------------------------------------------------------------- state space
\* sk = the skeleton of the shape, m = the model of the state and out = what the reporter (as it is / repaired) makes of
\* it with show_skipped on / off, all built once when the state is created (the invariants only read them)
VARIABLES ph, sh, sk, ds, m, out
vars == <<ph, sh, sk, ds, m, out>>
F == 1                                          \* the feature is element 1
Init == ph = "start" /\ sh = <<>> /\ sk = <<>> /\ ds = <<>> /\ m = <<>> /\ out = <<>>
Next == \/ ph = "start" /\ ph' = "shape" /\ sh' \in Shapes /\ sk' = Skeleton(sh') /\ UNCHANGED <<ds, m, out>>
        \/ ph = "shape" /\ ph' = "case" /\ UNCHANGED <<sh, sk>> /\ ds' \in [1..Weight(sh) -> DescsFor(Weight(sh))] /\ m' = Model(sk, ds')
           /\ out' = [show \in BOOLEAN |-> [code |-> FeatureReport(m', show, F, FALSE), repaired |-> FeatureReport(m', show, F, TRUE)]]
Spec == Init /\ [][Next]_vars

Dry == \E k \in DOMAIN ds : ds[k].dry
Cfg(show) == [show |-> show, dry |-> Dry]
Code(show)     == out[show].code                  \* the reporter as found
Repaired(show) == out[show].repaired              \* with the repaired _make_problem_description_for
Current(show)  == IF RepairedCode THEN Repaired(show) ELSE Code(show)
ClausesOf(show, obs) == Clauses(m, Cfg(show), F, obs)
KFClause == "C16.no_crash/cleanup_error_no_step"

\* (S) composed with (P): the reporter's output satisfies every clause.  (No exception: the cleanup_error_no_step
\* defect is repaired in the code; KF_C16_cleanup_error_no_step only names the family in the verdict should it return.)
ClausesHold == ph = "case" => \A show \in BOOLEAN : ClausesOf(show, Current(show)) = {}
\* the clauses can be met: with the repaired _make_problem_description_for nothing at all fires
RepairedHolds == ph = "case" => \A show \in BOOLEAN : ClausesOf(show, Repaired(show)) = {}
\* the exception is exactly as wide as the defect: the reporter raises iff some listed scenario of the feature is
\* error-class or failed without a step the reporter selects and without a hook message; for error-class that is the
\* cleanup-only family
CrashCause(show) == \E s \in SeqSet(DocScenarios(m, F)) :
                        /\ ~(m.status[F] = "skipped" /\ ~show)
                        /\ \/ m.status[s] \in ErrorClass /\ FirstWith(m.steps[s], ErrorStatuses) = 0 /\ ~m.hookmsg[s]
                           \/ m.status[s] = "failed" /\ FirstWith(m.steps[s], FailedStatuses) = 0 /\ ~m.hookmsg[s]
KFNarrow == ph = "case" => \A show \in BOOLEAN :
               /\ Code(show).crashed <=> CrashCause(show)
               /\ Code(show).crashed => KF_C16_cleanup_error_no_step(m, F)
               /\ Code(show).crashed => \E k \in DOMAIN ds : ds[k].cleanup /\ ~ds[k].hookmsg
\* without the defect the automaton and its repaired variant agree
RepairOnlyThere == ph = "case" => \A show \in BOOLEAN : ~Code(show).crashed => Code(show) = Repaired(show)
\* counters are those of the entries, whatever the statuses (conservation inside the automaton)
Conservation == ph = "case" => \A show \in BOOLEAN : LET o == Repaired(show) IN
                   o.doc.exists => /\ o.doc.tests = Len(Expected(m, Cfg(show), F))
                                   /\ o.doc.tests >= o.doc.failures + o.doc.errors
                                   /\ o.doc.skipped <= o.doc.tests
\* the walk of the code visits the scenarios in document order
WalkIsDocOrder == ph = "case" => Walk(m, F, 1) = DocScenarios(m, F)

RECURSIVE Hash(_,_)
Hash(q, k) == IF k > Len(q) THEN 0 ELSE q[k].ix * (7 * k * k + 3) + Hash(q, k + 1)
\* always emitted (the driver always runs them with skipped scenarios hidden): two scenarios the second of which ends
\* untested, and the dry-run combinations
Forced == Weight(sh) = 2 /\ (ds[2].name = "untested" \/ Dry)
EmitThis == Weight(sh) <= EmitAllUpTo \/ Forced \/ (Hash(ds, 1) + 13 * Len(sh)) % EmitMod = 0
Pred(show) == LET o == Current(show) IN
   [crashed |-> o.crashed, exists |-> o.doc.exists, tests |-> o.doc.tests, failures |-> o.doc.failures, errors |-> o.doc.errors,
    skipped |-> o.doc.skipped, cases |-> o.doc.cases, clauses |-> {v[1] : v \in ClausesOf(show, o)}]
Emit == (ph = "case" /\ EmitThis) =>
   PrintT(<<"CASE", ToJson([sh |-> sh, ds |-> [k \in DOMAIN ds |-> ds[k].name], dry |-> Dry,
                            st |-> [k \in DOMAIN ds |-> ds[k].st], steps |-> [k \in DOMAIN ds |-> ds[k].steps],
                            kinds |-> [el \in DOMAIN m.prog |-> m.prog[el].kind],
                            parents |-> [el \in DOMAIN m.prog |-> m.prog[el].parent],
                            status |-> m.status, shown |-> Pred(TRUE), hidden |-> Pred(FALSE)])>>)
=============================================================================
