"""C13 run part -- scopes around feature/rule/scenario and cleanups in real runs (clauses C13.* of Props_Run.tla)."""
from props import runprops


def run_part(chk):
    runprops.apply_shared(chk, ["C13."])


def replay_part(chk, payload):
    runprops.replay_case(chk, payload, ["C13."])
