------------------------- MODULE GherkinParser_MC -------------------------
(* C05, design level: EVERY sequence of line classes of length <= MaxLen   *)
(* from EVERY entry point (feature, rule, scenario, steps, tags) is fed to *)
(* the line machine of GherkinParser.tla.  One TLC state per sequence      *)
(* (sequences below an error/crash prefix are pruned: the outcome cannot   *)
(* change any more).  Invariants: NoCrash, ErrorLineInRange,               *)
(* ErrorAtLastLine.                                                        *)
(* Genuine defects of the code that the transcription reproduces are named *)
(* by narrow exception predicates KF_C05_n so that TLC goes on past them.  *)
(* Emit prints every sequence with its predicted outcome class.            *)
EXTENDS GherkinParser, TLC, Json
CONSTANTS MaxLen, NB, Alphabet, EmitMod    \* Alphabet: sequence of [code, ln]; sequences of full length: 1 of EmitMod is emitted

N == Len(Alphabet)
LineOf(k) == Alphabet[k].ln
Lines(seq) == [j \in DOMAIN seq |-> LineOf(seq[j])]
Codes(seq) == [j \in DOMAIN seq |-> Alphabet[seq[j]].code]

VARIABLES ph, entry, b, seq, ps
vars == <<ph, entry, b, seq, ps>>

Init == ph = "start" /\ entry = "feature" /\ b = 0 /\ seq = <<>> /\ ps = InitOf("feature")

\* the state after feeding `seq` (tags entry: parse_tags works on the whole text)
After(e, s, old, k) == IF e = "tags" THEN FeedTag(old, LineOf(k)) ELSE Feed(old, LineOf(k))
\* sequences are spread over buckets by their first two lines
Next == \/ /\ ph = "start" /\ ph' = "entry" /\ entry' \in {Entries[j] : j \in DOMAIN Entries} /\ UNCHANGED <<b, seq>>
           /\ ps' = IF entry' = "tags" THEN RunTags(<<>>) ELSE InitOf(entry')
        \/ /\ ph = "entry" /\ ph' = "bucket" /\ b' \in 0..(NB - 1) /\ UNCHANGED <<entry, seq, ps>>
        \/ /\ ph \in {"bucket", "seq"} /\ ph' = "seq" /\ ps.res.k = "live" /\ Len(seq) < MaxLen
           /\ \E k \in 1..N :
                 /\ (ph = "bucket" => k % NB = b)
                 /\ seq' = Append(seq, k)
                 /\ ps' = After(entry, seq', ps, k)
           /\ UNCHANGED <<entry, b>>
Spec == Init /\ [][Next]_vars

\* outcome of the text that ends here
Final == IF entry = "tags" THEN ps ELSE AtEof(ps)
Out == Outcome(Final)
Judged == ph = "seq" \/ (ph = "bucket" /\ b = 0)         \* the empty text is judged once per entry point

\* ------------------------------------------------------------ known defects (narrow; see known_findings.json)
\* 2: Rule / Scenario Outline / Background lines given to parse_rule, parse_scenario, parse_steps: no feature / container
KF_C05_2(e, o) == e \in {"rule", "scenario", "steps"} /\ o.why = "AttributeError"
                  /\ o.site \in {"feature.add_rule", "container.add_scenario", "container.add_background"}
\* 3: parse_rule: any other line than tags / Scenario while self.rule is None
KF_C05_3(e, o) == e = "rule" /\ o.why = "AttributeError" /\ o.site = "container.description"
\* 4: parse_scenario: a step or description line before the Scenario line (self.statement is None)
KF_C05_4(e, o) == e = "scenario" /\ o.why = "AttributeError" /\ o.site \in {"statement.steps", "statement.description"}
\* (1, 5, 6, 7 were repaired in behave: unknown language header, malformed row outside parse_feature, parse_tags)
KnownCrash(e, o) == KF_C05_2(e, o) \/ KF_C05_3(e, o) \/ KF_C05_4(e, o)

NoCrash == Judged => (Out.k = "crash" => KnownCrash(entry, Out))
ErrorLineInRange == Judged => (Out.k = "error" => (1 <= Out.n /\ Out.n <= Len(seq)))
\* an error is always reported at the line that is being read (= the last line of the pruned sequence)
ErrorAtLastLine == Judged => (Out.k = "error" => Out.n = Len(seq))
\* the strict forms: TLC must find the known defects (checked by the driver in a second, expected-to-fail run)
NoCrashStrict == Judged => Out.k # "crash"

RECURSIVE Hash(_,_)
Hash(s, j) == IF j > Len(s) THEN 0 ELSE s[j] * (2 * j + 1) + Hash(s, j + 1)
Emitted == Judged /\ (Len(seq) < MaxLen \/ EmitMod = 1 \/ Hash(seq, 1) % EmitMod = 0)
Emit == Emitted => PrintT(<<"CASE", entry, Codes(seq), Out.k, Out.n, Out.why, Out.site, KnownCrash(entry, Out)>>)
EmitAlphabet == ph = "start" => PrintT(<<"ALPHA", ToJson(Alphabet)>>)

\* ------------------------------------------------------------ alphabets
A(code, ln) == [code |-> code, ln |-> ln]
Ind1(ln) == [ln EXCEPT !.ind = 4]
L2(ln)   == [ln EXCEPT !.lg = 2]
Base == <<
   A("F", Ind1(Ln("F", "", <<3>>))), A("R", Ind1(Ln("R", "", <<3>>))), A("B", Ind1(Ln("B", "", <<3>>))),
   A("S", Ind1(Ln("S", "", <<3>>))), A("O", Ind1(Ln("O", "", <<3>>))), A("E", Ind1(Ln("E", "", <<3>>))),
   A("G", Ind1(Ln("Step", "given", <<3>>))), A("A", Ind1(Ln("Step", "and", <<3>>))), A("X", Ind1(Ln("Step", "star", <<3>>))),
   A("T1", Ind1(Ln("Row", "ok", <<3>>))), A("T2", Ind1(Ln("Row", "ok", <<3, 4>>))), A("Tb", Ind1(Ln("Row", "open", <<3, 4>>))),
   A("D", Ind1(Ln("Doc", "dq", <<>>))), A("Q", Ind1(Ln("Doc", "sq", <<>>))),
   A("@", Ind1(Ln("Tags", "ok", <<3>>))), A("@0", Ln("Tags", "ok", <<3, 4>>)), A("@b", Ind1(Ln("Tags", "bad", <<3>>))),
   A("#", Ind1(Ln("#", "", <<3>>))), A("L", L2(Ln("Lang", "known", <<>>))), A("Lx", Ln("Lang", "unknown", <<>>)),
   A("_", Ln("_", "", <<>>)), A("t", Ind1(Ln("t", "", <<3>>))), A("t0", Ln("t", "", <<3>>)),
   A("F2", L2(Ind1(Ln("F", "", <<3>>)))), A("G2", L2(Ind1(Ln("Step", "given", <<3>>)))) >>
More == <<
   A("W", Ind1(Ln("Step", "when", <<3>>))), A("N", Ind1(Ln("Step", "then", <<3>>))), A("U", Ind1(Ln("Step", "but", <<3>>))),
   A("@c", Ind1(Ln("Tags", "cmt", <<3>>))), A("S2", L2(Ind1(Ln("S", "", <<3>>)))),
   \* "| a | b | # x": no closing pipe at the end of the line; the last character is dropped, 3 cells
   A("Tc", Ind1(Ln("Row", "tail", <<3, 4, 5>>))) >>
AlphaQuick == Base
AlphaFull  == Base \o More
=============================================================================
