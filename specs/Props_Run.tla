----------------------------- MODULE Props_Run -----------------------------
(***************************************************************************)
(* Property layer (P) of the run cluster.  Every listed property is a set  *)
(* of named clauses over a finished trace row `r` that mentions            *)
(* observables only:                                                       *)
(*   r.prog (flat program table), r.cfg, r.events (hook / step / cleanup / *)
(*   fmt / rep events in order), r.end (verdict, statuses, markers).       *)
(* The same operators are evaluated on the behaviours of Run.tla           *)
(* (Run_MC: invariant at the end of every explored run) and on rows        *)
(* recorded from the real ModelRunner (Run_Trace).                          *)
(* Clauses are relations where the statement is silent (DESIGN §3 R2).     *)
(***************************************************************************)
EXTENDS Naturals, Integers, Sequences, FiniteSets, TLC

\* ---------------------------------------------------------------- program helpers
Kind(r, el) == r.prog[el].kind
Par(r, el)  == r.prog[el].parent
Els(r)      == DOMAIN r.prog
TagSet(r, el) == {r.prog[el].tags[k] : k \in DOMAIN r.prog[el].tags}
RECURSIVE EffRaw(_,_)
EffRaw(r, el) == IF el = 0 THEN {} ELSE TagSet(r, el) \cup EffRaw(r, Par(r, el))
RECURSIVE AncRaw(_,_)
AncRaw(r, el) == IF Par(r, el) = 0 THEN {} ELSE {Par(r, el)} \cup AncRaw(r, Par(r, el))
\* rows are enriched once (Enrich below) with per-element tables so that the clauses do not recompute them
EffT(r, el) == IF el = 0 THEN {} ELSE r.x.eff[el]
Anc(r, el) == r.x.anc[el]
Desc(r, el) == r.x.desc[el]
Scens(r) == {x \in Els(r) : Kind(r, x) = "scenario"}
ScensUnder(r, el) == IF Kind(r, el) = "scenario" THEN {el} ELSE Desc(r, el) \cap Scens(r)
StepsOf(r, s) == r.prog[s].steps
Wip(r, s) == "wip" \in EffT(r, s)
HasRuleAnc(r, s) == \E a \in Anc(r, s) : Kind(r, a) = "rule"

GlobT == {"t1", "t2"}
RECURSIVE EvalX(_,_,_)
EvalX(nodes, n, tags) == LET x == nodes[n] IN
   CASE x.op = "true" -> TRUE
     [] x.op = "lit"  -> x.name \in tags
     [] x.op = "glob" -> \E g \in tags : g \in GlobT
     [] x.op = "not"  -> ~EvalX(nodes, x.a, tags)
     [] x.op = "and"  -> EvalX(nodes, x.a, tags) /\ EvalX(nodes, x.b, tags)
     [] x.op = "or"   -> EvalX(nodes, x.a, tags) \/ EvalX(nodes, x.b, tags)
OwnMatch(r, el) == r.x.match[el]                              \* tag selection decided by the specification
\* a scenario is selected if its effective tags satisfy the expression and no hook excluded it (or an enclosing
\* feature / rule) at run time; SelBefore: the same without the scenario's own before_scenario hook
Sel(r, s) == r.x.match[s] /\ ~r.x.hskip[s]
SelBefore(r, s) == r.x.match[s] /\ ~r.x.askip[s]

\* clause id with the defect family it belongs to ("none" = no known family)
Fam(clause, family) == IF family = "none" THEN clause ELSE clause \o "/" \o family

\* ---------------------------------------------------------------- status classes
PassedLike == {"passed", "pending_warn", "xfailed", "xpassed"}
ErrorClass == {"error", "hook_error", "cleanup_error", "undefined", "pending"}
UntestedLike == {"untested", "untested_undefined", "untested_pending"}
FailedOrError == ErrorClass \cup {"failed"}

\* ---------------------------------------------------------------- event helpers
Ix(r) == DOMAIN r.events
Ev(r, i) == r.events[i]
IsHook(e) == e.k = "hook"
IsStepHook(e) == e.k = "hook" /\ e.name \in {"before_step", "after_step"}
\* (with scenario_autoretry a scenario may run twice: step-level clauses look at its LATEST attempt only)
LastAtt(r, s) == r.x.last[s]
AllStepEvs(r, s) == {i \in Ix(r) : Ev(r, i).k = "step" /\ Ev(r, i).el = s}
StepEvs(r, s) == {i \in AllStepEvs(r, s) : Ev(r, i).att = LastAtt(r, s)}
Called(r, s, p) == <<s, p>> \in r.x.called
StepHookRaised(r, s, p) == <<s, p>> \in r.x.shr
BeforeStepSeen(r, s, p) == <<s, p>> \in r.x.bss
BeforeStepRaised(r, s, p) == <<s, p>> \in r.x.bsr
AnyHookRaised(r) == r.x.anyHookRaised
AnyCleanupRaised(r) == r.x.anyCleanupRaised
HookEvsOf(r, el) == {i \in Ix(r) : IsHook(Ev(r, i)) /\ Ev(r, i).el = el /\ ~IsStepHook(Ev(r, i))
                                   /\ (Kind(r, el) = "scenario" => Ev(r, i).att = LastAtt(r, el))}
Executed(r, s) == s \in r.x.executed

LayerExists(r, s, layer) == layer \in {"", "testrun", "feature", "scenario"} \/ (layer = "rule" /\ HasRuleAnc(r, s))
LookupFails(r, s, p) == LET st == StepsOf(r, s)[p] IN st.cl_id # 0 /\ ~LayerExists(r, s, st.cl_layer)

\* what the step function at (s, p) did, as an abstract "does it pass" (own hooks included)
OutcomeLast(r, s, p) == IF LastAtt(r, s) >= 2 THEN StepsOf(r, s)[p].o2 ELSE StepsOf(r, s)[p].o
StepPasses(r, s, p) == LET st == StepsOf(r, s)[p]  o == OutcomeLast(r, s, p) IN
   /\ st.def /\ ~StepHookRaised(r, s, p) /\ ~LookupFails(r, s, p)
   /\ (o \in {"pass", "abort", "nest_pass"} \/ (o \in {"pending", "nest_pending"} /\ Wip(r, s)))

\* ---------------------------------------------------------------- "something went wrong", from source events only
BadEvent(r, e) ==
   \/ e.k = "step" /\ e.outcome \in {"fail", "skip_fail", "error", "kbd", "abort", "nest_fail", "nest_error", "nest_undef"}      \* (abort: the run is aborted)
   \/ e.k = "step" /\ e.outcome \in {"pending", "nest_pending"} /\ ~Wip(r, e.el)
   \/ e.k = "step" /\ LookupFails(r, e.el, e.pos)
   \/ e.k = "hook" /\ e.raised
   \/ e.k = "cleanup" /\ e.raised
   \/ e.k = "hook" /\ e.name = "before_step" /\ ~e.raised /\ e.pos # 0 /\ StepsOf(r, e.el)[e.pos].o = "badarg"   \* converter raises
   \/ e.k = "fmt" /\ e.name = "match" /\ e.undefined                                               \* undefined step reached
\* (only in SELECTED scenarios: an undefined step of a de-selected scenario is none of the run's business)
UndefinedStatusSeen(r) == \E s \in Scens(r) : Sel(r, s) /\ \E p \in DOMAIN r.end.step_status[s] :
                              r.end.step_status[s][p] \in {"undefined", "untested_undefined"}
Wrong(r) == (\E i \in Ix(r) : BadEvent(r, Ev(r, i))) \/ UndefinedStatusSeen(r)
AbortSeen(r) == \E i \in Ix(r) : \/ Ev(r, i).k = "step" /\ Ev(r, i).outcome \in {"kbd", "abort"}
                                 \/ Ev(r, i).k = "hook" /\ Ev(r, i).name = "before_all" /\ Ev(r, i).raised
Cut(r) == AbortSeen(r) \/ (r.cfg.stop /\ Wrong(r))      \* the run may have been cut short (observed, not from the verdict)
Ran(r) == r.end.ran

\* ---------------------------------------------------------------- enrichment (computed once per row)
\* --wip: only scenarios tagged wip are selected, the run stops at the first failure, stdout and logging are not captured
\* and setup_logging(level) called by before_all replaces the configured capture level
EffCfg(c0) == LET c == IF c0.setuplog # 0 /\ ~c0.dry THEN [c0 EXCEPT !.loglvl = c0.setuplog] ELSE c0 IN
              IF c.wip THEN [c EXCEPT !.stop = TRUE, !.cap_out = FALSE, !.cap_log = FALSE] ELSE c
Enrich(r0) ==
   LET els == DOMAIN r0.prog
       anc == [el \in els |-> AncRaw(r0, el)]
       eff == [el \in els |-> EffRaw(r0, el)]
       E == r0.events
       I == DOMAIN E
       atts(el) == {E[i].att : i \in {j \in I : E[j].k = "attempt" /\ E[j].el = el}}      \* only recorded under autoretry
       last == [el \in els |-> IF atts(el) = {} THEN 1 ELSE CHOOSE a \in atts(el) : \A b \in atts(el) : b <= a]
       \* skip entries whose hook really ran
       hits(k) == {i \in I : E[i].k = "hook" /\ E[i].name = r0.skips[k].name /\ E[i].el = r0.skips[k].el}
       done(k) == hits(k) # {}
       doneAt(k) == CHOOSE i \in hits(k) : \A j \in hits(k) : i <= j
       \* a skip() called from an after_scenario hook on an enclosing element excludes only what had not started by then
       late(k) == r0.skips[k].name = "after_scenario"
       startedBefore(el, i) == \E j \in I : j < i /\ E[j].k = "hook" /\ E[j].el = el
                                             /\ E[j].name \in {"before_scenario", "before_tag", "before_feature", "before_rule"}
       covers(k, el, own) == /\ done(k)
                             /\ r0.skips[k].target \in ((IF own THEN {el} ELSE {}) \cup anc[el])
                             /\ (~late(k) \/ ~startedBefore(el, doneAt(k)))
   IN [prog |-> r0.prog, cfg |-> EffCfg(r0.cfg), skips |-> r0.skips, hookcl |-> r0.hookcl, events |-> r0.events, end |-> r0.end, base |-> r0.base,
       x |-> [anc |-> anc, eff |-> eff,
              hskip |-> [el \in els |-> \E k \in DOMAIN r0.skips : covers(k, el, TRUE)],
              askip |-> [el \in els |-> \E k \in DOMAIN r0.skips : covers(k, el, FALSE)],
              desc |-> [el \in els |-> {y \in els : el \in anc[y]}],
              tmatch |-> [el \in els |-> EvalX(r0.cfg.nodes, r0.cfg.root, eff[el]) /\ (r0.cfg.wip => "wip" \in eff[el])],     \* by tags alone
              match |-> [el \in els |-> /\ EvalX(r0.cfg.nodes, r0.cfg.root, eff[el]) /\ (r0.cfg.wip => "wip" \in eff[el])
                                         \* --name: a scenario is selected only if its name matches one of the patterns
                                         /\ (r0.cfg.name_on /\ r0.prog[el].kind = "scenario" => \E k \in DOMAIN r0.cfg.namesel : r0.cfg.namesel[k] = el)],
              last |-> last,
              called |-> {<<E[i].el, E[i].pos>> : i \in {j \in I : E[j].k = "step" /\ E[j].att = last[E[j].el]}},
              shr |-> {<<E[i].el, E[i].pos>> : i \in {j \in I : IsStepHook(E[j]) /\ E[j].raised /\ E[j].att = last[E[j].el]}},
              bss |-> {<<E[i].el, E[i].pos>> : i \in {j \in I : E[j].k = "hook" /\ E[j].name = "before_step" /\ E[j].att = last[E[j].el]}},
              bsr |-> {<<E[i].el, E[i].pos>> : i \in {j \in I : E[j].k = "hook" /\ E[j].name = "before_step" /\ E[j].raised /\ E[j].att = last[E[j].el]}},
              subs |-> {<<E[i].el, E[i].pos>> : i \in {j \in I : E[j].k = "sub" /\ E[j].att = last[E[j].el]}},
              afters |-> {<<E[i].el, E[i].pos>> : i \in {j \in I : E[j].k = "after_nested" /\ E[j].att = last[E[j].el]}},
              executed |-> {E[i].el : i \in {j \in I : E[j].k = "hook" /\ E[j].name = "before_scenario"}},
              anyHookRaised |-> \E i \in I : IsHook(E[i]) /\ E[i].raised,
              anyCleanupRaised |-> \E i \in I : E[i].k = "cleanup" /\ E[i].raised]]

\* ======================================================================= C01
\* (with scenario_autoretry an earlier failing attempt is deliberately forgiven: the statement does not cover it)
C01(r) ==
   (IF ~Ran(r) THEN {"C01.crash"} ELSE {})
   \cup (IF Ran(r) /\ ~r.cfg.retry /\ Wrong(r) /\ ~r.end.verdict THEN {"C01.false_green"} ELSE {})
   \cup (IF Ran(r) /\ ~r.cfg.retry /\ ~Wrong(r) /\ r.end.verdict THEN {"C01.false_red"} ELSE {})

\* process exit code of `python -m behave` for the same case (r.events = events recorded by the child process)
C01Exit(r) == IF (r.exit # 0) # Wrong(r) THEN {"C01.exit_code"} ELSE {}

\* ======================================================================= C02
MapStatus(r, s, p) == LET o == OutcomeLast(r, s, p) IN
   IF LookupFails(r, s, p) THEN "error"
   ELSE CASE o \in {"pass", "abort"} -> "passed" [] o \in {"fail", "skip_fail"} -> "failed" [] o \in {"error", "kbd"} -> "error"
          [] o = "pending" -> (IF Wip(r, s) THEN "pending_warn" ELSE "pending")
          [] o = "skip" -> "skipped"
          \* the step delegates to a sub-step through context.execute_steps(): passes iff the sub-step passes
          [] o = "nest_pass" -> "passed" [] o \in {"nest_fail", "nest_error", "nest_undef"} -> "failed"
          [] o = "nest_pending" -> (IF Wip(r, s) THEN "passed" ELSE "failed") [] OTHER -> "?"
SeqOfStepEvs(r, s) == SelectSeq([i \in Ix(r) |-> i], LAMBDA i : i \in StepEvs(r, s))
C02Scenario(r, s) ==
   LET calls == SeqOfStepEvs(r, s)
       st    == r.end.step_status[s]
       n     == Len(StepsOf(r, s))
       okLen == Len(st) = n
       \* first position that does not pass among the positions that were started (before_step seen or reached undefined)
       skipAt(p) == Called(r, s, p) /\ OutcomeLast(r, s, p) = "skip" /\ ~StepHookRaised(r, s, p) /\ ~LookupFails(r, s, p)
       started(p) == BeforeStepSeen(r, s, p) \/ (\E i \in Ix(r) : Ev(r, i).k = "fmt" /\ Ev(r, i).name = "result" /\ Ev(r, i).el = s /\ Ev(r, i).pos = p
                                                                   /\ Ev(r, i).status = "undefined" /\ Ev(r, i).att = LastAtt(r, s))
   IN
   IF <<s, 0>> \in r.x.shr      \* a hook of a nested sub-step raised: order and dry-run clauses only
   THEN (IF \E a, b \in DOMAIN calls : a < b /\ Ev(r, calls[a]).pos >= Ev(r, calls[b]).pos THEN {"C02.order"} ELSE {})
        \cup (IF r.cfg.dry /\ StepEvs(r, s) # {} THEN {"C02.dry"} ELSE {})
   ELSE
   (IF ~okLen THEN {"C02.order"} ELSE {})
   \* order: the call order is the document order fbg, rbg, own; every step function at most once
   \cup (IF \E a, b \in DOMAIN calls : a < b /\ Ev(r, calls[a]).pos >= Ev(r, calls[b]).pos THEN {"C02.order"} ELSE {})
   \* map: status is determined solely by what the step function did (own hook errors are C12's business)
   \cup (IF okLen /\ \E i \in StepEvs(r, s) : LET p == Ev(r, i).pos IN
                 p \in DOMAIN st /\ ~StepHookRaised(r, s, p) /\ st[p] # MapStatus(r, s, p) THEN {"C02.map"} ELSE {})
   \cup (IF okLen /\ \E p \in DOMAIN st : OutcomeLast(r, s, p) = "badarg" /\ BeforeStepSeen(r, s, p) /\ ~StepHookRaised(r, s, p)
                                           /\ (Called(r, s, p) \/ st[p] # "error") THEN {"C02.map"} ELSE {})
   \cup (IF okLen /\ \E p \in DOMAIN st : ~StepsOf(r, s)[p].def /\ (Called(r, s, p) \/ st[p] \notin {"undefined", "untested_undefined", "skipped", "untested"})
         THEN {"C02.map"} ELSE {})
   \* stop: no step function is called after the first step that does not pass (default mode)
   \cup (IF ~r.cfg.cont /\ \E i \in StepEvs(r, s) : \E p \in 1..(Ev(r, i).pos - 1) : p \in DOMAIN StepsOf(r, s) /\ ~StepPasses(r, s, p)
         THEN {"C02.stop"} ELSE {})
   \* rest: after the first non-passing step the remaining steps are skipped, or undefined when they have no definition;
   \*       a step that skips its scenario leaves the rest skipped
   \cup (IF okLen /\ ~r.cfg.cont /\ ~r.cfg.dry /\ \E p \in DOMAIN st : started(p) /\ ~StepPasses(r, s, p) /\
              \E q \in (p + 1)..n : ~started(q) /\
                   st[q] # (IF skipAt(p) \/ StepsOf(r, s)[q].def THEN "skipped" ELSE "undefined")
         THEN {"C02.rest"} ELSE {})
   \* a step that skips its scenario (and passes) leaves the rest skipped: no later step function is called, also when
   \* continue_after_failed_step is on and an earlier step had failed
   \cup (IF \E a, b \in DOMAIN calls : a < b /\ Ev(r, calls[a]).outcome = "skip" /\ ~StepHookRaised(r, s, Ev(r, calls[a]).pos)
                                        /\ ~LookupFails(r, s, Ev(r, calls[a]).pos)
         THEN {"C02.skip_stops"} ELSE {})
   \* dry-run: no step function is ever called
   \cup (IF r.cfg.dry /\ StepEvs(r, s) # {} THEN {"C02.dry"} ELSE {})
\* "what ITS step function did": the function that runs is one registered for the step's own type (given / when / then,
\* And / But inheriting it) or a generic one -- never the function another step type registered under the same text
C02Own(r) == IF \E i \in Ix(r) : LET e == Ev(r, i) IN e.k = "step" /\ e.pos # 0 /\ e.via \notin {"step", StepsOf(r, e.el)[e.pos].stype}
             THEN {"C02.own_function"} ELSE {}
C02(r) == C02Own(r) \cup UNION {C02Scenario(r, s) : s \in Scens(r)}

\* ======================================================================= C03 (roll-up on final statuses of real runs)
ChildStatuses(r, c) == IF Kind(r, c) = "scenario" THEN r.end.step_status[c]
                       ELSE [k \in DOMAIN r.prog[c].children |-> r.end.status[r.prog[c].children[k]]]
Rng(f) == {f[k] : k \in DOMAIN f}
\* cleanups that raised while element c's own context layer was popped are not attributed by events; use "some cleanup raised"
DocAllows(r, c) ==
   LET cs == Rng(ChildStatuses(r, c))
       bad == {x \in cs : x \in FailedOrError}
       base == IF bad # {} THEN {IF x \in ErrorClass THEN "error" ELSE "failed" : x \in bad}
               ELSE IF cs \subseteq {"skipped"} THEN {"skipped"}
               ELSE IF cs \subseteq ({"skipped"} \cup UntestedLike) THEN {"untested"}
               ELSE IF cs \subseteq ({"skipped"} \cup PassedLike) THEN {"passed"}
               ELSE {"failed", "untested"}                           \* passed + untested mixture (cut run)
   \* hook_failed is the public attribute of the element (whether the right element was marked is C12's business)
   IN IF r.end.hook_failed[c] \/ AnyCleanupRaised(r)
      THEN (base \ {"passed", "skipped", "untested"}) \cup (IF r.end.hook_failed[c] THEN {"hook_error"} ELSE {})
                                                        \cup (IF AnyCleanupRaised(r) THEN {"error"} \cup base ELSE {})
      ELSE base
NonEmpty(r, c) == Len(ChildStatuses(r, c)) > 0
Containers(r) == {c \in Els(r) : NonEmpty(r, c)}
C03Family(r, c) ==   \* names the known defect families so that narrow known-finding signatures are possible
   LET cs == ChildStatuses(r, c) IN
   IF Kind(r, c) = "outline" /\ r.end.status[c] = "passed" /\ Rng(cs) \subseteq ({"skipped"} \cup UntestedLike) THEN "outline_untested"
   ELSE IF Kind(r, c) = "scenario" /\ r.end.status[c] = "skipped" /\ (\E p \in DOMAIN cs : cs[p] \in PassedLike)
           /\ (\E i \in StepEvs(r, c) : Ev(r, i).outcome = "skip") THEN "skip_by_step"
   \* the scan of compute_status stops at the first untested child: a later failed / error child is not seen (KF-C03-2)
   ELSE IF Kind(r, c) # "scenario" /\ r.end.status[c] \in {"failed", "untested"}
           /\ (\E i, j \in DOMAIN cs : i < j /\ cs[i] \in UntestedLike /\ cs[j] \in FailedOrError) THEN "order"
   ELSE "none"
\* re-running an element yields statuses that depend only on the latest run: a step that the latest attempt did not
\* start carries no "executed" status of an earlier attempt
OwnHookRaised(r, el) == \E i \in HookEvsOf(r, el) : Ev(r, i).raised
C03Latest(r) ==
   IF \E s \in Scens(r) : LastAtt(r, s) >= 2 /\
        \/ \E p \in DOMAIN r.end.step_status[s] :
              ~BeforeStepSeen(r, s, p) /\ r.end.step_status[s][p] \notin {"skipped", "untested", "undefined"}
        \* ... nor does the scenario keep the hook error of an earlier attempt
        \/ (r.end.status[s] = "hook_error" \/ r.end.hook_failed[s]) /\ ~OwnHookRaised(r, s)
   THEN {"C03.latest_run_only"} ELSE {}
C03(r) ==
   IF ~Ran(r) THEN {}
   ELSE C03Latest(r) \cup UNION {
      IF r.cfg.dry
      THEN (IF r.end.status[c] = "passed" /\ Rng(ChildStatuses(r, c)) \cap PassedLike = {} THEN {"C03.untested_never_passed"} ELSE {})
      ELSE (IF r.end.status[c] \notin DocAllows(r, c) THEN {Fam("C03.rollup", C03Family(r, c))} ELSE {})
      : c \in Containers(r)}

\* ======================================================================= C09
NoHookFault(r) == ~AnyHookRaised(r)
AncestorsEntered(r, s) == \A a \in Anc(r, s) : Kind(r, a) = "outline" \/
                             \E i \in Ix(r) : Ev(r, i).k = "hook" /\ Ev(r, i).name \in {"before_feature", "before_rule"} /\ Ev(r, i).el = a
C09(r) ==
   \* effective tags of the parsed model = own + ancestors' (rows: outline + examples block)
   (IF \E el \in Els(r) : r.end.eff[el] # <<>> /\ Rng(r.end.eff[el]) # EffT(r, el) THEN {"C09.effective"} ELSE {})
   \* nothing of a scenario that is not selected executes
   \cup (IF \E i \in Ix(r) : LET e == Ev(r, i) IN
              /\ e.el # 0 /\ Kind(r, e.el) = "scenario"
              /\ ((e.k = "hook" /\ ~IsStepHook(e) /\ ~SelBefore(r, e.el)) \/ ((e.k = "step" \/ IsStepHook(e)) /\ ~Sel(r, e.el)))
         THEN {"C09.exec_only_selected"} ELSE {})
   \* a selected scenario that is reached executes
   \cup (IF Ran(r) /\ ~r.cfg.dry /\ ~Cut(r) /\ NoHookFault(r) /\ \E s \in Scens(r) : Sel(r, s) /\ ~Executed(r, s)
         THEN {"C09.selected_runs"} ELSE {})
   \* every other scenario is reported skipped with all its steps skipped
   \cup (IF Ran(r) /\ \E s \in Scens(r) : ~Sel(r, s) /\
              (IF ~Cut(r) /\ NoHookFault(r) THEN r.end.status[s] # "skipped" \/ Rng(r.end.step_status[s]) \ {"skipped"} # {}
               ELSE r.end.status[s] \notin ({"skipped", "untested"} \cup
                                             \* (a scenario without any step that the cut run never reached computes its status
                                             \*  from nothing: the status of childless elements is outside C03 and not judged here)
                                             (IF Len(StepsOf(r, s)) = 0 THEN {"passed"} ELSE {}) \cup
                                             \* (excluded by its own before_scenario hook: its after hooks still run and may raise)
                                             (IF SelBefore(r, s) /\ OwnHookRaised(r, s) THEN {"hook_error"} ELSE {})))
         THEN {"C09.unselected_skipped"} ELSE {})
   \* a non-empty feature / rule / outline none of whose scenarios is selected ends up skipped
   \cup (IF Ran(r) /\ ~Cut(r) /\ NoHookFault(r) /\ \E c \in Els(r) : Kind(r, c) # "scenario" /\ ScensUnder(r, c) # {}
              /\ (\A s \in ScensUnder(r, c) : ~Sel(r, s)) /\ r.end.status[c] # "skipped"
         THEN {"C09.container_skipped"} ELSE {})
   \* ... and one containing a selected scenario that passes or fails does not
   \cup (IF Ran(r) /\ ~r.cfg.dry /\ \E c \in Els(r) : Kind(r, c) # "scenario" /\ r.end.status[c] = "skipped"
              /\ \E s \in ScensUnder(r, c) : Sel(r, s) /\ Executed(r, s) /\ r.end.status[s] \in (PassedLike \cup FailedOrError)
         THEN {"C09.container_not_skipped"} ELSE {})

\* ======================================================================= C12
IsBefore(n) == n \in {"before_all", "before_feature", "before_rule", "before_scenario", "before_step", "before_tag"}
HKind(n) == CASE n \in {"before_all", "after_all"} -> "all"
              [] n \in {"before_feature", "after_feature"} -> "feature"
              [] n \in {"before_rule", "after_rule"} -> "rule"
              [] n \in {"before_scenario", "after_scenario"} -> "scenario"
              [] n \in {"before_step", "after_step"} -> "step"
              [] OTHER -> "tag"
Key(e) == [kind |-> HKind(e.name), el |-> e.el, tag |-> e.tag, pos |-> e.pos]
LastIdx(s, k) == IF \E i \in DOMAIN s : s[i] = k THEN CHOOSE i \in DOMAIN s : s[i] = k /\ \A j \in DOMAIN s : s[j] = k => j <= i ELSE 0
Remove(s, i) == [j \in 1..(Len(s) - 1) |-> IF j < i THEN s[j] ELSE s[j + 1]]
\* the expected enclosing bracket of a hook event: parent element's bracket, or the element's own bracket for its tag hooks
\* fold over the hook events: st = [open, bad]
NestStep(r, st, e) ==
   LET k == Key(e) IN
   IF IsBefore(e.name) THEN
        \* a before-bracket may only open inside the brackets of its ancestors: top of stack is the parent's
        \* own bracket, a sibling tag bracket of the same element, or (for the element's own hook) its tag brackets
        LET top == IF st.open = <<>> THEN [kind |-> "none", el |-> 0, tag |-> "", pos |-> 0] ELSE st.open[Len(st.open)]
            okTop == CASE k.kind = "all" -> st.open = <<>>
                       [] k.kind = "step" -> (top.kind = "scenario" /\ top.el = k.el) \/
                                             (k.pos = 0 /\ top.kind = "step" /\ top.el = k.el /\ top.pos # 0)    \* nested sub-step
                       [] k.kind = "tag" -> (top.kind = "tag" /\ top.el = k.el) \/ top.kind = "all" \/
                                            (top.kind \in {"feature", "rule"} /\ top.el \in Anc(r, k.el))
                       [] OTHER -> (top.kind = "tag" /\ top.el = k.el) \/ top.kind = "all" \/
                                   (top.kind \in {"feature", "rule"} /\ top.el \in Anc(r, k.el))
        IN [open |-> Append(st.open, k), bad |-> st.bad \cup (IF okTop THEN {} ELSE {"C12.nesting"})]
   ELSE LET bk == [k EXCEPT !.kind = k.kind]
            i == LastIdx(st.open, bk) IN
        IF i = 0 THEN [st EXCEPT !.bad = @ \cup {"C12.nesting"}]           \* after-hook without its before-hook
        ELSE LET above == SubSeq(st.open, i + 1, Len(st.open))
                 \* only tag brackets of the same element may still be open above (they close in opening order)
                 okNest == \A j \in DOMAIN above : above[j].kind = "tag" /\ above[j].el = k.el /\ k.kind = "tag"
             IN [open |-> Remove(st.open, i), bad |-> st.bad \cup (IF okNest THEN {} ELSE {"C12.nesting"})]
RECURSIVE NestFold(_,_,_)
NestFold(r, st, i) == IF i > Len(r.events) THEN st
                      ELSE NestFold(r, IF IsHook(Ev(r, i)) THEN NestStep(r, st, Ev(r, i)) ELSE st, i + 1)
\* tag order: the before_tag / after_tag hooks of an element come one per own tag, in order
TagHooksOf(r, el, nm) == SelectSeq(r.events, LAMBDA e : e.k = "hook" /\ e.name = nm /\ e.el = el
                                                           /\ (Kind(r, el) = "scenario" => e.att = LastAtt(r, el)))
TagOrderOk(r, el) ==
   LET bt == TagHooksOf(r, el, "before_tag")  at == TagHooksOf(r, el, "after_tag")  tg == r.prog[el].tags IN
   /\ (bt = <<>> \/ [k \in DOMAIN bt |-> bt[k].tag] = tg)
   /\ (at = <<>> \/ [k \in DOMAIN at |-> at[k].tag] = tg)
\* known defect family: only tag hooks of a RULE raised for this element (the code marks the feature instead)
HookFamily(r, el) == IF Kind(r, el) = "rule" /\ (\A i \in HookEvsOf(r, el) : Ev(r, i).raised => HKind(Ev(r, i).name) = "tag")
                     THEN "rule_tag_hook" ELSE "none"
BeforeRaised(r, el) == \E i \in HookEvsOf(r, el) : Ev(r, i).raised /\ IsBefore(Ev(r, i).name)
C12(r) ==
   LET nest == NestFold(r, [open |-> <<>>, bad |-> {}], 1) IN
   nest.bad
   \cup (IF \E el \in Els(r) : ~TagOrderOk(r, el) THEN {"C12.nesting"} ELSE {})
   \cup (IF Ran(r) /\ nest.open # <<>> THEN {"C12.after_paired"} ELSE {})
   \cup (IF ~Ran(r) THEN {"C12.contained"} ELSE {})
   \* the element concerned is marked hook-error and the run fails
   \cup (IF Ran(r) THEN {Fam("C12.marks_element", HookFamily(r, el)) : el \in {x \in Els(r) : OwnHookRaised(r, x) /\
              r.end.status[x] \notin ({"hook_error"} \cup (IF AnyCleanupRaised(r) THEN {"error"} ELSE {}))}} ELSE {})
   \cup (IF Ran(r) /\ \E s \in Scens(r) : \E p \in DOMAIN r.end.step_status[s] :
              StepHookRaised(r, s, p) /\ r.end.step_status[s][p] # "hook_error" THEN {"C12.marks_element"} ELSE {})
   \* ... and exactly that element: nothing is marked hook-error without a raising hook of its own (latest attempt)
   \cup (IF Ran(r) /\ \E el \in Els(r) : (r.end.hook_failed[el] \/ r.end.status[el] = "hook_error") /\ ~OwnHookRaised(r, el)
         THEN {"C12.marks_exactly"} ELSE {})
   \cup (IF Ran(r) /\ \E s \in Scens(r) : \E p \in DOMAIN r.end.step_status[s] :
              r.end.step_status[s][p] = "hook_error" /\ ~StepHookRaised(r, s, p) THEN {"C12.marks_exactly"} ELSE {})
   \cup (IF Ran(r) /\ AnyHookRaised(r) /\ ~r.end.verdict THEN {"C12.run_fails"} ELSE {})
   \* a failing before-hook keeps the element's body from running
   \cup {Fam("C12.body_suppressed", HookFamily(r, el)) : el \in {x \in Els(r) : BeforeRaised(r, x) /\
              \E i \in Ix(r) : LET e == Ev(r, i) IN
                  \/ e.k = "step" /\ e.el \in ScensUnder(r, x) /\ e.att = LastAtt(r, e.el)
                  \/ IsHook(e) /\ e.el # 0 /\ (e.el \in Desc(r, x) \/ (IsStepHook(e) /\ e.el = x /\ e.att = LastAtt(r, x)))}}
   \cup (IF \E s \in Scens(r) : \E p \in DOMAIN StepsOf(r, s) : BeforeStepRaised(r, s, p) /\ Called(r, s, p)
         THEN {"C12.body_suppressed"} ELSE {})
   \* before_all failure aborts the run
   \cup (IF (\E i \in Ix(r) : Ev(r, i).k = "hook" /\ Ev(r, i).name = "before_all" /\ Ev(r, i).raised)
            /\ (\E i \in Ix(r) : Ev(r, i).k = "step" \/ (IsHook(Ev(r, i)) /\ HKind(Ev(r, i).name) \notin {"all"}))
         THEN {"C12.before_all_aborts"} ELSE {})
   \* no hooks for elements that are neither selected by their own tags nor contain a selected scenario
   \* ... nor for elements below a feature / rule that one of its hooks excluded at run time
   \cup (IF \E i \in Ix(r) : LET e == Ev(r, i) IN IsHook(e) /\ e.el # 0 /\
              \/ (~r.x.tmatch[e.el] /\ (\A d \in Desc(r, e.el) : ~r.x.tmatch[d]))      \* (by tags, not by --name; any element below counts: rule, outline, scenario)
              \/ (Kind(r, e.el) = "scenario" /\ ~r.x.match[e.el])
              \/ r.x.askip[e.el]
         THEN {"C12.not_for_skipped"} ELSE {})
   \cup (IF r.cfg.dry /\ \E i \in Ix(r) : IsHook(Ev(r, i)) THEN {"C12.not_in_dry_run"} ELSE {})
   \* --stop still stops at the first failure: after a hook of an element raised no other element is started
   \* (not under auto-retry, where a failed attempt is forgiven)
   \cup (IF r.cfg.stop /\ ~r.cfg.retry /\ \E i, j \in Ix(r) : i < j /\ IsHook(Ev(r, i)) /\ Ev(r, i).raised /\ Ev(r, i).el # 0
              /\ IsHook(Ev(r, j)) /\ Ev(r, j).name \in {"before_feature", "before_rule", "before_scenario"}
              /\ Ev(r, j).el # Ev(r, i).el
         THEN {"C12.stop_stops"} ELSE {})

\* two-run clause: r.base = the fault-free run of the same program and configuration.  Every element outside the failing
\* elements' own ancestry / descendants keeps the result it has without the fault.  Not asserted when either run was cut
\* short (--stop, abort): there the statement only speaks about what lies before the cut.
C12Pair(r) ==
   IF ~Ran(r) \/ ~r.base.ran \/ r.cfg.stop \/ r.cfg.retry \/ AbortSeen(r) \/ r.base.aborted THEN {}
   ELSE LET H == {el \in Els(r) : OwnHookRaised(r, el)} \cup {sp[1] : sp \in r.x.shr}
            aff == H \cup UNION {Anc(r, el) : el \in H} \cup UNION {Desc(r, el) : el \in H}
        IN IF \E el \in Els(r) \ aff : \/ r.end.status[el] # r.base.status[el]
                                        \/ (Kind(r, el) = "scenario" /\ r.end.step_status[el] # r.base.step_status[el])
           THEN {"C12.others_unaffected"} ELSE {}

\* ======================================================================= C13 (run part): scopes around feature / rule / scenario
FeatOf(r, el) == CHOOSE f \in ({el} \cup Anc(r, el)) : Kind(r, f) = "feature"
RuleOf(r, el) == IF Kind(r, el) = "rule" THEN el
                 ELSE IF \E a \in Anc(r, el) : Kind(r, a) = "rule" THEN CHOOSE a \in Anc(r, el) : Kind(r, a) = "rule" ELSE 0
ScenOf(r, el) == IF Kind(r, el) = "scenario" THEN el ELSE 0
C13rVis(r) ==
   \* vis = <<ga, fa, ra, sa, sv>>: attributes set by before_all / before_feature / before_rule / before_scenario / steps
   (IF \E i \in Ix(r) : LET e == Ev(r, i) IN e.k \in {"hook", "step"} /\
          (IF e.el = 0 THEN e.vis[2] # 0 \/ e.vis[3] # 0 \/ e.vis[4] # 0 \/ e.vis[5] # 0
           ELSE \/ e.vis[2] \notin {0, FeatOf(r, e.el)}
                \/ e.vis[3] \notin {0, RuleOf(r, e.el)}
                \/ e.vis[4] \notin {0, ScenOf(r, e.el)}
                \/ e.vis[5] \notin {0, ScenOf(r, e.el)})
    THEN {"C13.scope_end"} ELSE {})
   \cup (IF \E i \in Ix(r) : LET e == Ev(r, i) IN e.k = "step" /\
             (e.vis[1] # 1 \/ e.vis[2] # FeatOf(r, e.el) \/ e.vis[3] # RuleOf(r, e.el) \/ e.vis[4] # e.el)
         THEN {"C13.visible"} ELSE {})
RegHooks == {"before_all", "after_all", "before_feature", "before_rule", "before_scenario", "after_scenario"}
\* the element whose scope holds the cleanup registered by step p of scenario s (0: the test run)
ClOwner(r, s, p) == LET st == StepsOf(r, s)[p] IN
                    CASE st.cl_layer \in {"", "scenario"} -> s [] st.cl_layer = "rule" -> RuleOf(r, s)
                      [] st.cl_layer = "feature" -> FeatOf(r, s) [] OTHER -> 0
C13rCl(r) ==
   \* every cleanup runs exactly once per registration (a step that runs again in a second attempt registers again)
   (IF Ran(r) /\ \E s \in Scens(r) : \E p \in DOMAIN StepsOf(r, s) : LET c == StepsOf(r, s)[p].cl_id IN
          c # 0 /\ Cardinality({i \in Ix(r) : Ev(r, i).k = "cleanup" /\ Ev(r, i).cid = c})
                   # Cardinality({i \in AllStepEvs(r, s) : Ev(r, i).pos = p /\ ~LookupFails(r, s, p)})
    THEN {"C13.cleanup_once"} ELSE {})
   \* (under autoretry a cleanup of a scenario scope that raised in a forgiven attempt does not count)
   \cup (IF Ran(r) /\ ~r.end.verdict /\
            (IF ~r.cfg.retry THEN AnyCleanupRaised(r)
             ELSE \E s \in Scens(r) : \E p \in DOMAIN StepsOf(r, s) : LET st == StepsOf(r, s)[p] IN
                     st.cl_id # 0 /\ ClOwner(r, s, p) # s /\ \E i \in Ix(r) : Ev(r, i).k = "cleanup" /\ Ev(r, i).cid = st.cl_id /\ Ev(r, i).raised)
         THEN {"C13.cleanup_fails_run"} ELSE {})
   \* hooks that register a cleanup (row.hookcl): each of them runs exactly once, too -- also one registered by after_all
   \cup (IF Ran(r) /\ r.hookcl /\ \E i \in Ix(r) : Ev(r, i).k = "hook" /\ Ev(r, i).name \in RegHooks
                                  /\ Cardinality({j \in Ix(r) : Ev(r, j).k = "cleanup" /\ Ev(r, j).cid = 500 + Ev(r, i).n}) # 1
         THEN {"C13.cleanup_once"} ELSE {})
   \* cleanups of one scope run in reverse order of registration (not judged under autoretry, where a step registers twice)
   \cup (IF Ran(r) /\ ~r.cfg.retry /\
            LET regs == (IF r.hookcl THEN {[cid |-> 500 + Ev(r, i).n, at |-> i, scope |-> Ev(r, i).el] :
                                           i \in {j \in Ix(r) : Ev(r, j).k = "hook" /\ Ev(r, j).name \in RegHooks}} ELSE {})
                        \cup {[cid |-> StepsOf(r, Ev(r, i).el)[Ev(r, i).pos].cl_id, at |-> i, scope |-> ClOwner(r, Ev(r, i).el, Ev(r, i).pos)] :
                              i \in {j \in Ix(r) : Ev(r, j).k = "step" /\ Ev(r, j).pos # 0 /\ StepsOf(r, Ev(r, j).el)[Ev(r, j).pos].cl_id # 0
                                                    /\ ~LookupFails(r, Ev(r, j).el, Ev(r, j).pos)}}
                ranAt(c) == {j \in Ix(r) : Ev(r, j).k = "cleanup" /\ Ev(r, j).cid = c}
            IN \E a, b \in regs : a.scope = b.scope /\ a.at < b.at /\ \E ja \in ranAt(a.cid) : \E jb \in ranAt(b.cid) : ja < jb
         THEN {"C13.cleanup_lifo"} ELSE {})
   \* a raising cleanup makes the element that owns its scope fail (scenario scopes not judged under autoretry: a later
   \* attempt may pass)
   \cup (IF Ran(r) /\ \E s \in Scens(r) : \E p \in DOMAIN StepsOf(r, s) : LET st == StepsOf(r, s)[p] IN
             /\ st.cl_id # 0 /\ \E i \in Ix(r) : Ev(r, i).k = "cleanup" /\ Ev(r, i).cid = st.cl_id /\ Ev(r, i).raised
             /\ LET owner == CASE st.cl_layer \in {"", "scenario"} -> (IF r.cfg.retry THEN 0 ELSE s)
                                [] st.cl_layer = "rule" -> RuleOf(r, s)
                                [] st.cl_layer = "feature" -> FeatOf(r, s)
                                [] OTHER -> 0
                IN owner # 0 /\ r.end.status[owner] \notin FailedOrError
         THEN {"C13.cleanup_fails_element"} ELSE {})

\* ======================================================================= C18 (capture), event part
C18(r) ==
   \* stdout / stderr are the original objects at every formatter callback and in every non-step hook
   (IF \E i \in Ix(r) : LET e == Ev(r, i) IN
          (e.k = "fmt" \/ e.k = "rep" \/ (e.k = "hook" /\ ~IsStepHook(e))) /\ (~e.out_real \/ ~e.err_real)
    THEN {"C18.restored"} ELSE {})
   \* while capture is on, step and step-hook code never sees the real stream; with capture off it does
   \cup (IF \E i \in Ix(r) : LET e == Ev(r, i) IN (e.k \in {"step", "sub", "after_nested"} \/ IsStepHook(e)) /\
              (e.out_real # ~r.cfg.cap_out \/ e.err_real # ~r.cfg.cap_err)
         THEN {"C18.no_leak"} ELSE {})

\* markers: [t, el, pos], t in Hb Ha (step hooks, stdout), O (stdout) E (stderr) L (logging) of the step body
SetOf(q) == {q[k] : k \in DOMAIN q}
AfterStepSeen(r, s, p) == \E i \in Ix(r) : Ev(r, i).k = "hook" /\ Ev(r, i).name = "after_step" /\ Ev(r, i).el = s /\ Ev(r, i).pos = p
\* the log records of a step body <<marker, level, logger name>> and the capture handler's admission rule (level, RecordFilter)
StepLogRecords == {<<"D", 10, "verif">>, <<"L", 30, "verif">>, <<"G", 40, "other">>}
LogPassR(r, lv, nm) == /\ lv >= r.cfg.loglvl
                       /\ IF r.cfg.logexc # <<>> THEN \A i \in DOMAIN r.cfg.logexc : r.cfg.logexc[i] # nm
                          ELSE r.cfg.loginc = <<>> \/ \E i \in DOMAIN r.cfg.loginc : r.cfg.loginc[i] = nm
Produced(r, s, q) ==      \* everything written while step q of scenario s was running, per stream
   [out |-> (IF BeforeStepSeen(r, s, q) THEN {[t |-> "Hb", el |-> s, pos |-> q]} ELSE {})
            \cup (IF Called(r, s, q) THEN {[t |-> "O", el |-> s, pos |-> q]} ELSE {})
            \cup (IF <<s, q>> \in r.x.subs THEN {[t |-> "N", el |-> s, pos |-> q]} ELSE {})        \* nested sub-step body
            \cup (IF <<s, q>> \in r.x.afters THEN {[t |-> "A", el |-> s, pos |-> q]} ELSE {})      \* calling step after execute_steps()
            \cup (IF AfterStepSeen(r, s, q) THEN {[t |-> "Ha", el |-> s, pos |-> q]} ELSE {}),
    err |-> IF Called(r, s, q) THEN {[t |-> "E", el |-> s, pos |-> q]} ELSE {},
    log |-> IF Called(r, s, q) THEN {[t |-> m[1], el |-> s, pos |-> q] : m \in {m \in StepLogRecords : LogPassR(r, m[2], m[3])}} ELSE {}]
CapturedUpTo(r, s, p) == UNION {(IF r.cfg.cap_out THEN Produced(r, s, q).out ELSE {}) \cup (IF r.cfg.cap_err THEN Produced(r, s, q).err ELSE {})
                                \cup (IF r.cfg.cap_log THEN Produced(r, s, q).log ELSE {}) : q \in 1..p}
C18Marks(r) ==
   LET pairs == {sp \in r.x.bss \cup r.x.called : sp[2] # 0}       \* (position 0 = hooks of nested sub-steps: print nothing)
       outP == UNION {Produced(r, sq[1], sq[2]).out : sq \in pairs}
       errP == UNION {Produced(r, sq[1], sq[2]).err : sq \in pairs}
   IN
   \* nothing written under capture reaches the real streams; with capture off everything passes straight through
   (IF (r.cfg.cap_out /\ SetOf(r.end.real_out) \cap outP # {}) \/ (r.cfg.cap_err /\ SetOf(r.end.real_err) \cap errP # {})
    THEN {"C18.no_leak"} ELSE {})
   \cup (IF Ran(r) /\ ((~r.cfg.cap_out /\ ~(outP \subseteq SetOf(r.end.real_out))) \/ (~r.cfg.cap_err /\ ~(errP \subseteq SetOf(r.end.real_err))))
         THEN {"C18.passthrough"} ELSE {})
   \* the failure report of a failing step: everything captured in its scenario up to that step, nothing of other scenarios
   \cup (IF \E s \in Scens(r) : \E p \in DOMAIN r.end.step_status[s] :
              /\ r.end.step_status[s][p] \in FailedOrError /\ BeforeStepSeen(r, s, p)
              /\ p \in DOMAIN r.end.errmarks[s] /\ SetOf(r.end.errmarks[s][p]) # CapturedUpTo(r, s, p)
         THEN {"C18.report_exact"} ELSE {})
   \* no report on steps that did not fail
   \cup (IF \E s \in Scens(r) : \E p \in DOMAIN r.end.errmarks[s] :
              LastAtt(r, s) = 1 /\ p \in DOMAIN r.end.step_status[s] /\ r.end.step_status[s][p] \notin FailedOrError /\ r.end.errmarks[s][p] # <<>>
         THEN {"C18.pass_silent"} ELSE {})
\* log records and the user's own root handler: with log capture and --logging-clear-handlers nothing a step logs reaches it;
\* with log capture off every record of WARNING or above passes straight through to it
C18UserLog(r) ==
   LET seen == {m \in SetOf(r.end.user_log) : m.t \in {"D", "L", "G"}}
       calledPairs == {sp \in r.x.called : sp[2] # 0}
   IN
   (IF r.cfg.cap_log /\ r.cfg.logclear /\ seen # {} THEN {"C18.no_leak"} ELSE {})
   \* (every record that reaches the root logger's level -- WARNING unless the run's own hooks chose another one)
   \cup (IF Ran(r) /\ ~r.cfg.cap_log /\
            LET rootlvl == IF r.cfg.setuplog # 0 THEN r.cfg.setuplog ELSE IF r.cfg.rootlvl0 THEN 0 ELSE 30 IN
            ~({[t |-> m[1], el |-> sp[1], pos |-> sp[2]] : m \in {x \in StepLogRecords : x[2] >= rootlvl}, sp \in calledPairs} \subseteq seen)
         THEN {"C18.passthrough"} ELSE {})
\* logging: the user's own root handler and the root level are the same at every hook outside steps (driver probes)
OutsideScen(r, i) == Ev(r, i).el = 0 \/ r.prog[Ev(r, i).el].kind # "scenario"
C18Log(r) ==
   \* (an after_scenario hook wrapped with the @capture decorator -- cfg.capdeco -- runs under the decorator's own capture
   \*  handler and level: not a probe point)
   LET hs == {i \in Ix(r) : Ev(r, i).k = "hook" /\ ~IsStepHook(Ev(r, i)) /\ ~(r.cfg.capdeco /\ Ev(r, i).name = "after_scenario")}
       \* the first hook outside scenario s after its before_scenario hook at index i (0 if none)
       nextOutside(i) == LET c == {j \in hs : j > i /\ Ev(r, j).el # Ev(r, i).el} IN
                         IF c = {} THEN 0 ELSE CHOOSE j \in c : \A k \in c : j <= k
   IN
   \* (with --logging-clear-handlers the user's handler is detached while a scenario captures: judged at the hooks outside scenarios)
   \* (when before_all itself changes the root level -- cfg.rootlvl0 -- the level inside a capturing scenario is the
   \*  capture handler's: judged at the hooks outside scenarios, where it must be what before_all left)
   (IF \E i, j \in hs : (~Ev(r, i).mine /\ (~r.cfg.logclear \/ Ev(r, i).el = 0 \/ r.prog[Ev(r, i).el].kind # "scenario"))
                        \/ (Ev(r, i).lvl # Ev(r, j).lvl /\ (~r.cfg.rootlvl0 \/ (OutsideScen(r, i) /\ OutsideScen(r, j) /\ Ev(r, i).name # "before_all" /\ Ev(r, j).name # "before_all")))
    THEN {"C18.logging_restored"} ELSE {})
   \* after a scenario the root logger carries no more foreign (capture) handlers than before it
   \cup (IF \E i \in hs : Ev(r, i).name = "before_scenario" /\ nextOutside(i) # 0
                          /\ Ev(r, nextOutside(i)).nfor > Ev(r, i).nfor
         THEN {"C18.logging_restored"} ELSE {})
C13r(r) == C13rVis(r) \cup C13rCl(r)
\* with --name in force the selection clauses speak about name selection: they are reported under C10
C09N(r) == IF r.cfg.name_on THEN (IF C09(r) \ {"C09.effective"} # {} THEN {"C10.name_in_run"} ELSE {}) \cup (C09(r) \cap {"C09.effective"})
           ELSE C09(r)
ClausesX(r) == C01(r) \cup C02(r) \cup C03(r) \cup C09N(r) \cup C12(r) \cup C13r(r) \cup C18(r) \cup C18Marks(r) \cup C18UserLog(r)
\* rows whose faulty hooks raise KeyboardInterrupt (r0.kbd): the user interrupts the run while a hook is running.  The
\* listed quantifiers give hooks Exceptions and AssertionErrors and give KeyboardInterrupt to steps; what behave does here
\* (Run.tla: KbdUnwind) is specified and its conformance is measured, but of the properties only the run verdict is judged:
\* an aborted run reports failure (C01).  A run the interrupt left altogether (before_all / after_all) is not judged
ClausesKbd(r0) == IF ~r0.end.ran THEN {} ELSE C01(Enrich(r0)) \ {"C01.crash"}
Clauses(r0) == IF r0.kbd THEN ClausesKbd(r0) ELSE LET r == Enrich(r0) IN ClausesX(r) \cup C12Pair(r) \cup C18Log(r0)
PairClauses(r0) == IF r0.kbd THEN {} ELSE C12Pair(Enrich(r0))
ExitClauses(r0) == C01Exit([Enrich(r0) EXCEPT !.base = r0.base] @@ [exit |-> r0.exit])
\* on behaviours of the specification itself (no probes of the driver's context instrumentation)
ClausesMCX(r) == C01(r) \cup C02(r) \cup C03(r) \cup C09N(r) \cup C12(r) \cup C13rCl(r) \cup C18(r) \cup C18Marks(r) \cup C18UserLog(r)
ClausesMC(r0) == ClausesMCX(Enrich(r0))
\* defect families of the code as it is (DESIGN §8): the specification models them, the property layer rejects them
KnownFamilies == {"C03.rollup/skip_by_step", "C03.rollup/order"}
=============================================================================
