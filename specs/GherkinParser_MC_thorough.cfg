INIT Init
NEXT Next
CONSTANTS
  MaxLen = 5
  NB = 31
  Alphabet <- AlphaFull
  EmitMod = 16
INVARIANT NoCrash
INVARIANT ErrorLineInRange
INVARIANT ErrorAtLastLine
INVARIANT Emit
INVARIANT EmitAlphabet
