#!/venv/bin/python
"""tools/seedimport.py <property id> <scratch worktree> <first number> <result dir>
Copies <worktree>/SEED/1 and /2 (patch.diff, demo*.py, meta.json) to seeded/<id>-<n>, <id>-<n+1>, removes the scratch
worktree, then evaluates each with tools/seedtest.py (demonstration on clean + changed copy, pinned tests, the
property's quick check) and writes the JSON outputs to <result dir>/<id>-<n>.json."""
import os
import shutil
import subprocess
import sys

HERE = os.path.dirname(os.path.dirname(os.path.abspath(__file__)))


def main():
    pid, wt, first, out = sys.argv[1], sys.argv[2], int(sys.argv[3]), sys.argv[4]
    os.makedirs(out, exist_ok=True)
    sids = []
    for k in (1, 2):
        src = os.path.join(wt, "SEED", str(k))
        if not os.path.exists(os.path.join(src, "patch.diff")):
            print("missing", src)
            continue
        sid = "%s-%d" % (pid, first + k - 1)
        dst = os.path.join(HERE, "seeded", sid)
        os.makedirs(dst, exist_ok=True)
        for fn in os.listdir(src):
            if fn == "patch.diff" or fn == "meta.json" or (fn.startswith("demo") and fn.endswith(".py")):
                shutil.copy(os.path.join(src, fn), os.path.join(dst, fn))
        sids.append(sid)
    subprocess.call(["git", "-C", "/repo", "worktree", "remove", "--force", wt])
    shutil.rmtree(wt, ignore_errors=True)
    subprocess.call(["git", "-C", "/repo", "worktree", "prune"])
    for sid in sids:
        with open(os.path.join(out, sid + ".json"), "w") as f:
            subprocess.call([os.path.join(HERE, "tools", "seedtest.py"), os.path.join(HERE, "seeded", sid), pid], stdout=f, stderr=subprocess.STDOUT)
        print("evaluated", sid)


if __name__ == "__main__":
    main()
