------------------------------- MODULE Status -------------------------------
(***************************************************************************)
(* Status algebra of behave (C03, algebra part).                           *)
(*                                                                         *)
(* (S) what the code does: the predicates of behave.model_core.Status and  *)
(*     the three compute_status() functions of behave.model, transcribed   *)
(*     branch by branch from the code AS IT IS (over ALL 16 members of the *)
(*     enumeration, including the reserved ones):                          *)
(*        ScenarioFromSteps   = Scenario.compute_status         (model.py) *)
(*        ContainerFromItems  = ScenarioContainer.compute_status (Feature, *)
(*                              Rule)                                      *)
(*        OutlineFromRows     = ScenarioOutline.compute_status             *)
(*        OuterFromInner      = OuterStatus.from_inner_status              *)
(* (P) what the property demands: the documented classification DocClass   *)
(*     (docs/appendix.status.rst + the statement of C03) and the relation  *)
(*     DocAllows(kind, children, hookFailed) -- a relation, not a          *)
(*     function, where the statement is silent.                            *)
(*                                                                         *)
(* Pure definitions only.  Status_MC enumerates all child tuples of the    *)
(* bound, Status_Trace judges rows recorded from real model objects.       *)
(* A result is a status name, or "exc_<ExceptionType>" if compute_status   *)
(* raised.                                                                 *)
(***************************************************************************)
EXTENDS Naturals, Sequences, FiniteSets

\* ---------------------------------------------------------------- the enumeration (behave.model_core.Status)
AllStatus == {"unknown", "untested", "executing", "skipped", "passed", "xfailed", "xpassed",
              "failed", "error", "hook_error", "cleanup_error",
              "undefined", "pending", "pending_warn", "untested_pending", "untested_undefined"}
\* markers that are never the reported status of anything: RESERVED unknown, and the transient "executing"
Transient  == {"unknown", "executing"}
Reportable == AllStatus \ Transient
\* docs/appendix.status.rst: the 11 documented values; the 6 "common" ones are used for features, rules,
\* scenarios (and steps), the other 5 "are only used for steps"
Documented == {"untested", "untested_pending", "untested_undefined", "skipped", "passed", "failed", "error",
               "hook_error", "pending", "pending_warn", "undefined"}
Common     == {"untested", "skipped", "passed", "failed", "error", "hook_error"}
Kinds      == {"scenario", "feature", "rule", "outline"}
\* the statuses the documentation knows as children of this kind of element
ChildDomain(kind) == IF kind = "scenario" THEN Documented ELSE Common

\* ---------------------------------------------------------------- (S) predicates as coded (Status.is_xxx)
IsPassed(s)   == s \in {"passed", "xfailed", "xpassed", "pending_warn"}
IsFailure(s)  == s = "failed"
IsError(s)    == s \in {"error", "hook_error", "cleanup_error", "undefined", "pending"}
IsUntested(s) == s \in {"untested", "untested_undefined", "untested_pending"}
IsSkipped(s)  == s = "skipped"                      \* no method in the code: `status == Status.skipped`
HasFailed(s)  == IsError(s) \/ IsFailure(s)
IsPending(s)  == s \in {"pending", "pending_warn", "untested_pending"}
IsUndefined(s) == s \in {"undefined", "untested_undefined"}
IsFinal(s)    == s \in {"skipped", "passed", "xfailed", "xpassed", "failed", "error", "hook_error",
                        "undefined", "untested_undefined", "pending", "pending_warn"}
ClassNames == {"passed", "failure", "error", "skipped", "untested"}
Classes(s) == (IF IsPassed(s) THEN {"passed"} ELSE {}) \cup (IF IsFailure(s) THEN {"failure"} ELSE {})
              \cup (IF IsError(s) THEN {"error"} ELSE {}) \cup (IF IsSkipped(s) THEN {"skipped"} ELSE {})
              \cup (IF IsUntested(s) THEN {"untested"} ELSE {})

\* ---------------------------------------------------------------- (P) the documented classification
\* statement: "an error-class status (error, hook error, undefined, pending)"; docs tables "Error?", "Failed?",
\* "Untested?" and "From Inner Status to Outer Status" (pending_warn -> passed, untested_* -> untested)
DocClass(s) == CASE s \in {"error", "hook_error", "undefined", "pending"} -> "error"
                 [] s = "failed" -> "failure"
                 [] s \in {"passed", "pending_warn"} -> "passed"
                 [] s = "skipped" -> "skipped"
                 [] s \in {"untested", "untested_pending", "untested_undefined"} -> "untested"
                 [] OTHER -> "none"                 \* not documented
\* "the status classification itself is coherent": exactly one class per reportable status, the documented
\* members in their documented class, has_failed = error or failure
PartitionOK(name, classes, hasFailed) ==
   /\ name \notin Transient => Cardinality(classes) = 1
   /\ name \in Documented => classes = {DocClass(name)}
   /\ hasFailed = ("error" \in classes \/ "failure" \in classes)
PartitionFamily(name, classes, hasFailed) ==
   IF name \notin Transient /\ classes = {} THEN "no_class"
   ELSE IF name \notin Transient /\ Cardinality(classes) > 1 THEN "several_classes"
   ELSE IF name \in Documented /\ classes # {DocClass(name)} THEN "not_documented_class"
   ELSE IF hasFailed # ("error" \in classes \/ "failure" \in classes) THEN "has_failed"
   ELSE ""

\* ---------------------------------------------------------------- (S) the code, branch by branch
\* OuterStatus.from_inner_status
OuterFromInner(s) == IF IsError(s) THEN "error" ELSE IF IsFailure(s) THEN "failed"
                     ELSE IF s = "pending_warn" THEN "passed" ELSE s

\* Scenario.compute_status: the loop over all_steps (after the hook_failed test)
RECURSIVE ScenarioFrom(_,_)
ScenarioFrom(ss, k) ==
   IF k > Len(ss) THEN "passed"                                  \* all steps passed or pending_warn
   ELSE LET s == ss[k] IN
        IF s = "pending_warn" THEN ScenarioFrom(ss, k + 1)       \* continue
        ELSE IF IsError(s) THEN "error"
        ELSE IF IsFailure(s) THEN "failed"
        ELSE IF IsUntested(s) THEN "untested"
        ELSE IF s # "passed" THEN (IF s = "skipped" THEN s       \* assert step.status in (Status.skipped,)
                                   ELSE "exc_AssertionError")
        ELSE ScenarioFrom(ss, k + 1)
ScenarioFromSteps(ss) == ScenarioFrom(ss, 1)

\* ScenarioContainer.compute_status (Feature and Rule): the loop over run_items
RECURSIVE ContainerFrom(_,_,_,_)
ContainerFrom(cs, k, skipped, passedCount) ==
   IF k > Len(cs) THEN (IF skipped THEN "skipped" ELSE "passed")
   ELSE LET s == cs[k] IN
        IF IsError(s) THEN "error"
        ELSE IF IsFailure(s) THEN "failed"
        ELSE IF s = "untested" THEN (IF passedCount > 0 THEN "failed" ELSE "untested")
        ELSE ContainerFrom(cs, k + 1, skipped /\ s = "skipped",
                           IF s = "passed" THEN passedCount + 1 ELSE passedCount)
ContainerFromItems(cs, hookFailed) == IF hookFailed THEN "hook_error" ELSE ContainerFrom(cs, 1, TRUE, 0)

\* ScenarioOutline.compute_status: the loop over the row scenarios (hook_failed is not consulted)
RECURSIVE OutlineFrom(_,_,_)
OutlineFrom(cs, k, skippedCount) ==
   IF k > Len(cs) THEN (IF skippedCount > 0 /\ skippedCount = Len(cs) THEN "skipped" ELSE "passed")
   ELSE LET s == cs[k]
            o == OuterFromInner(s)
        IN IF HasFailed(o) THEN o
           ELSE OutlineFrom(cs, k + 1, IF s = "skipped" THEN skippedCount + 1 ELSE skippedCount)
\* the same with the untested case of the drafted repair of DESIGN 8 #1 (design/candidate_repairs.diff): an
\* untested row makes the outline untested, or failed if a row before it was neither skipped nor untested
RECURSIVE OutlineFromU(_,_,_,_)
OutlineFromU(cs, k, skippedCount, passedCount) ==
   IF k > Len(cs) THEN (IF skippedCount > 0 /\ skippedCount = Len(cs) THEN "skipped" ELSE "passed")
   ELSE LET s == cs[k]
            o == OuterFromInner(s)
        IN IF HasFailed(o) THEN o
           ELSE IF IsUntested(o) THEN (IF passedCount > 0 THEN "failed" ELSE "untested")
           ELSE IF s = "skipped" THEN OutlineFromU(cs, k + 1, skippedCount + 1, passedCount)
           ELSE OutlineFromU(cs, k + 1, skippedCount, passedCount + 1)
\* The specification follows the code: FALSE = ScenarioOutline.compute_status as it is in the unrepaired tree,
\* TRUE = with the untested case.  (Rows are never empty here: an outline without rows is out of scope.)
OutlineHasUntestedCase == TRUE
OutlineFromRows(cs) == IF OutlineHasUntestedCase THEN OutlineFromU(cs, 1, 0, 0) ELSE OutlineFrom(cs, 1, 0)

Code(kind, cs, hf) ==
   CASE kind = "scenario" -> IF hf THEN "hook_error" ELSE ScenarioFromSteps(cs)
     [] kind \in {"feature", "rule"} -> ContainerFromItems(cs, hf)
     [] kind = "outline" -> OutlineFromRows(cs)
     [] OTHER -> "exc_UnknownKind"

\* ---------------------------------------------------------------- (P) the documented relation
Range(q) == {q[i] : i \in DOMAIN q}
DPassed(s)   == DocClass(s) = "passed"
DFailed(s)   == DocClass(s) \in {"error", "failure"}
DSkipped(s)  == DocClass(s) = "skipped"
DUntested(s) == DocClass(s) = "untested"
\* a case is judged iff the documentation knows every child status for this kind of element and there is a child
Judged(kind, cs) == kind \in Kinds /\ cs # <<>> /\ \A x \in Range(cs) : x \in ChildDomain(kind)
\* Cl(_): the classification used ("error" / "failure" / "passed" / "skipped" / "untested" / "none")
BaseBy(cs, Cl(_)) ==
   LET R == Range(cs)
       Bad(x) == Cl(x) \in {"error", "failure"}
   IN
   IF \E x \in R : Bad(x)
      \* an error-class status inside makes it error, a failed assertion makes it failed;
      \* both below: the statement gives no precedence
      THEN {IF Cl(x) = "error" THEN "error" ELSE "failed" : x \in {y \in R : Bad(y)}}
   ELSE IF \A x \in R : Cl(x) = "skipped" THEN {"skipped"}                    \* skipped only if everything is skipped
   ELSE IF \A x \in R : Cl(x) \in {"skipped", "untested"} THEN {"untested"}   \* nothing executed: untested, never passed
   ELSE IF \A x \in R : Cl(x) \in {"skipped", "passed"} THEN {"passed"}       \* everything not skipped passed
   ELSE {"failed", "untested"}                                               \* passed + untested mixture (cut run)
Base(cs) == BaseBy(cs, DocClass)
\* own hook failed: the element itself is error-class, never passed / skipped / untested
DocAllows(kind, cs, hf) ==
   IF hf /\ kind # "outline" THEN (Base(cs) \cup {"hook_error", "error"}) \ {"passed", "skipped", "untested"}
   ELSE Base(cs)

\* ---------------------------------------------------------------- named families of known deviations
\* Each is a narrow shape of (kind, children, result); everything else outside DocAllows is family "other".
NoDFailed(cs) == \A x \in Range(cs) : ~DFailed(x)
\* KF_C03_outline_untested (DESIGN 8 #1): ScenarioOutline.compute_status has no untested case -- an outline
\* with an untested row and no failed/errored row claims "passed"
KF_C03_outline_untested(kind, cs, res) ==
   kind = "outline" /\ res = "passed" /\ NoDFailed(cs) /\ \E x \in Range(cs) : DUntested(x)
\* KF_C03_skipstep (DESIGN 8 #10): a scenario whose steps are passed+ skipped+ (skipped by one of its own
\* steps) is "skipped"
KF_C03_skipstep(kind, cs, res) ==
   /\ kind = "scenario" /\ res = "skipped"
   /\ \E n \in 1..(Len(cs) - 1) : /\ \A i \in 1..n : DPassed(cs[i])
                                  /\ \A i \in (n + 1)..Len(cs) : DSkipped(cs[i])
\* KF_C03_order (DESIGN 8 #18): the scans return at the first untested child (feature, rule) / the first
\* untested or skipped child (scenario) and ignore a later child of a different class (synthetic tuples only:
\* in a sequential run nothing decisive follows an untested child)
StopsAt(kind, s) == IF kind = "scenario" THEN DUntested(s) \/ DSkipped(s) ELSE s = "untested"
EarlyResult(kind, cs, i) ==
   IF kind = "scenario" THEN (IF DSkipped(cs[i]) THEN "skipped" ELSE "untested")
   ELSE IF \E j \in 1..(i - 1) : cs[j] = "passed" THEN "failed" ELSE "untested"
KF_C03_order(kind, cs, hf, res) ==
   /\ kind \in Kinds /\ ~hf          \* (the outline has no such scan today; it would get one with an untested case)
   /\ \E i \in 1..(Len(cs) - 1) :
         /\ StopsAt(kind, cs[i])
         /\ \A j \in 1..(i - 1) : ~StopsAt(kind, cs[j]) /\ ~DFailed(cs[j])
         /\ res = EarlyResult(kind, cs, i)
         /\ \E j \in (i + 1)..Len(cs) : DocClass(cs[j]) # DocClass(cs[i])
IsExc(res) == res \notin AllStatus
\* family of a judged case: "" = inside the documented relation
Family(kind, cs, hf, res) ==
   IF res \in DocAllows(kind, cs, hf) THEN ""
   ELSE IF IsExc(res) THEN "crash"
   ELSE IF KF_C03_outline_untested(kind, cs, res) THEN "outline_untested"
   ELSE IF KF_C03_skipstep(kind, cs, res) THEN "skipstep"
   ELSE IF KF_C03_order(kind, cs, hf, res) THEN "order"
   ELSE "other"
KnownFamilies == {"outline_untested", "skipstep", "order"}
\* a child status the documentation does not list for this kind (reserved member, or a step-only status held by
\* a scenario / rule): not judged (R2); reported as information, classified by the code's own predicates
CodeClass(s) == IF Cardinality(Classes(s)) = 1 THEN CHOOSE c \in Classes(s) : TRUE ELSE "none"
ForeignInfo(kind, cs, hf, res) ==
   IF kind \notin Kinds \/ cs = <<>> \/ Judged(kind, cs) THEN ""
   ELSE IF IsExc(res) THEN "foreign_crash"
   ELSE IF \E x \in Range(cs) : Classes(x) = {} THEN "foreign_unclassified"
   ELSE IF hf \/ res \in BaseBy(cs, CodeClass) THEN "foreign_inside"      \* inside the relation read with the code's classes
   ELSE "foreign_outside"
=============================================================================
