"""Shared stage of the run cluster: cases -> (TLC prediction, real traces) -> comparison."""
import json
import os
import random
from multiprocessing import Pool

from . import gen as G, cases as C, drive

EVKEYS = ("k", "name", "el", "tag", "raised", "pos", "outcome", "status", "undefined", "cid")


def _proj(e):
    return tuple(e.get(k) for k in EVKEYS)


def _marks_to_recs(marks, sid):
    """['O2_1','Hb2_1',..] -> sorted list of [t, pos] of this scenario; foreign ones keep their sid"""
    out = []
    for m in marks:
        t = m.rstrip("0123456789_")
        a, b = m[len(t):].split("_")
        out.append({"t": t, "el": int(a), "pos": int(b)})
    return out


def _run_one(job):
    case = job
    try:
        row = drive.run_case(case, reports=case.get("reports", False))
        row["key"] = case["key"]
        return row
    except Exception as x:      # machinery failure of the driver itself
        import traceback
        return {"key": case["key"], "driver_error": traceback.format_exc()}


def drive_all(jobs, procs=14):
    if procs <= 1 or len(jobs) < 20:
        return [_run_one(j) for j in jobs]
    with Pool(procs) as pool:
        return pool.map(_run_one, jobs, chunksize=max(1, len(jobs) // (procs * 8)))


def compare(pred, row, flat):
    """spec prediction vs observation -> list of difference descriptions (empty = full conformance)"""
    diffs = []
    pe = [_proj(e) for e in pred["events"]]
    oe = [_proj(e) for e in row["events"]]
    if pe != oe:
        for i, (a, b) in enumerate(zip(pe, oe)):
            if a != b:
                diffs.append("event %d: spec %s impl %s" % (i, a, b))
                break
        else:
            diffs.append("event count: spec %d impl %d" % (len(pe), len(oe)))
    end = row["end"]
    if end["escaped"]:
        diffs.append("escaped %s" % end["escaped"])
    if bool(pred["verdict"]) != end["verdict"]:
        diffs.append("verdict spec %s impl %s" % (pred["verdict"], end["verdict"]))
    if list(pred["status"]) != end["status"]:
        diffs.append("status spec %s impl %s" % (pred["status"], end["status"]))
    if [list(x) for x in pred["step_status"]] != end["step_status"]:
        diffs.append("step_status spec %s impl %s" % (pred["step_status"], end["step_status"]))
    if list(pred["hook_failed"]) != end["hook_failed"]:
        diffs.append("hook_failed spec %s impl %s" % (pred["hook_failed"], end["hook_failed"]))
    return diffs
