"""Check plumbing: violations, known findings, evidence, replay files, exit codes."""
import hashlib
import json
import os
import re
import time

from . import tlc as _tlc

VERIF = _tlc.VERIF
# (the seeding tool points these elsewhere so that runs against mutated copies never touch the committed evidence)
EVIDENCE = os.environ.get("VERIF_EVIDENCE_DIR") or os.path.join(VERIF, "evidence")
REPLAYS = os.environ.get("VERIF_REPLAY_DIR") or os.path.join(VERIF, "replays")
FINDINGS = os.path.join(VERIF, "known_findings.json")
REPO = os.environ.get("VERIF_REPO", "/repo")


def load_findings():
    try:
        with open(FINDINGS) as fh:
            return json.load(fh).get("findings", [])
    except (OSError, ValueError):
        return []


class Check(object):
    """One run of one property's check."""

    def __init__(self, pid, tier, seed):
        self.pid = pid
        self.tier = tier
        self.seed = seed
        self.t0 = time.time()
        self.tlc_runs = []
        self.violations = []       # dicts: clause, sig, detail, replay
        self.samples = []
        self.impl_traces = 0
        self.evaluations = 0
        self.extra = {}            # extra coverage keys
        self.assumptions = []
        self.exhaustive = None
        self.rule = ""
        self.divergences = 0
        self.notes = []
        self._known = [f for f in load_findings() if f.get("property") == pid and f.get("status") == "known"]

    # ---- TLC
    def tlc(self, module, cfg=None, **kw):
        if "seed" not in kw and kw.get("simulate"):
            kw["seed"] = self.seed
        r = _tlc.run_tlc(module, cfg, **kw)
        self.tlc_runs.append((module, cfg or module + ".cfg", r))
        return r

    # ---- verdicts
    def violation(self, clause, sig, detail="", replay=None):
        self.violations.append({"clause": clause, "sig": sig, "detail": detail, "replay": replay})

    def sample(self, obj, limit=3):
        if len(self.samples) < limit:
            self.samples.append(obj)

    def note(self, text):
        self.notes.append(text)

    def quick(self):
        return self.tier == "quick"

    # ---- finish
    def known_entry(self, v):
        for f in self._known:
            if f.get("clause") and f["clause"] != v["clause"]:
                continue
            if re.fullmatch(f.get("match", ".*"), v["sig"]):
                return f
        return None

    def finish(self):
        new = []
        known_hits = {}
        for v in self.violations:
            f = self.known_entry(v)
            if f is not None:
                known_hits.setdefault(f["id"], [f, 0, v])
                known_hits[f["id"]][1] += 1
            else:
                new.append(v)
        for fid in sorted(known_hits):
            f, n, v = known_hits[fid]
            print("KNOWN-FINDING: property=%s %s [%s] clause=%s hits=%d e.g. %s" % (
                self.pid, f.get("what", f.get("description", "")), fid, v["clause"], n, v["sig"]))
        # distinct signatures only, one line each (at most 20 lines)
        seen = {}
        for v in new:
            seen.setdefault((v["clause"], v["sig"]), []).append(v)
        lines = 0
        for (clause, sig), vs in sorted(seen.items()):
            path = self.write_replay(vs[0])
            if lines < 12:
                print("VIOLATION property=%s replay=%s clause=%s sig=%s hits=%d %s" % (
                    self.pid, path, clause, sig, len(vs), (vs[0]["detail"] or "")[:300].replace("\n", " ")))
            lines += 1
        self.write_evidence(len(new), sorted(known_hits))
        for n in self.notes:
            print("NOTE %s" % n)
        states = sum(r.distinct for _, _, r in self.tlc_runs)
        print("%s property=%s tier=%s seed=%d tlc_states=%d impl_traces=%d violations=%d known=%d wall=%.1fs" % (
            "FAIL" if new else "OK", self.pid, self.tier, self.seed, states, self.impl_traces,
            len(seen), len(known_hits), time.time() - self.t0))
        return 1 if new else 0

    def write_replay(self, v):
        os.makedirs(REPLAYS, exist_ok=True)
        payload = {"property": self.pid, "clause": v["clause"], "sig": v["sig"], "detail": v["detail"],
                   "replay": v["replay"], "seed": self.seed, "tier": self.tier}
        blob = json.dumps(payload, sort_keys=True, default=str)
        h = hashlib.sha256(blob.encode("utf-8")).hexdigest()[:12]
        path = os.path.join(REPLAYS, "%s-%s.json" % (self.pid, h))
        with open(path, "w") as fh:
            fh.write(json.dumps(payload, sort_keys=True, indent=1, default=str))
        return path

    def write_evidence(self, nviol, known_ids):
        os.makedirs(EVIDENCE, exist_ok=True)
        states = sum(r.distinct for _, _, r in self.tlc_runs)
        trans = sum(r.generated for _, _, r in self.tlc_runs)
        cov = {
            "states": states,
            "transitions": trans,
            "traces_validated_against_impl": int(self.impl_traces),
            "samples": self.samples or [{"note": "no sample recorded"}],
            "evaluations": int(self.evaluations or self.impl_traces or states),
            "rule": self.rule,
            "divergences": self.divergences,
            "known_findings_hit": known_ids,
            "tlc_runs": [{"module": m, "cfg": c, "distinct": r.distinct, "generated": r.generated,
                          "depth": r.depth, "wall_s": round(r.wall, 2),
                          "actions_covered": {k: v[1] for k, v in sorted(r.coverage.items())},
                          "actions_never_taken": sorted(k for k, v in r.coverage.items() if v[1] == 0)}
                         for m, c, r in self.tlc_runs],
        }
        if self.exhaustive is not None:
            cov["exhaustive"] = bool(self.exhaustive)
        cov.update(self.extra)
        ev = {
            "property_id": self.pid,
            "tier": self.tier,
            "seed": int(self.seed),
            "level": "model_checking",
            "coverage": cov,
            "assumptions": self.assumptions,
            "wall_s": round(time.time() - self.t0, 2),
            "violations": int(nviol),
        }
        with open(os.path.join(EVIDENCE, "%s.json" % self.pid), "w") as fh:
            json.dump(ev, fh, indent=1, sort_keys=True, default=str)
            fh.write("\n")
