---------------------------- MODULE Select_Trace ----------------------------
(* Judge of C10 on rows recorded from the real collect_feature_locations(), *)
(* parse_features(), FeatureListParser, Configuration(--name) / ModelRunner.*)
(* One state per row; every violated clause is printed as                   *)
(*    <<"VERDICT", row id, clause, index of the run / observation>>         *)
(* and every disagreement between the observation and the code model of     *)
(* Select.tla (informational, never a verdict) as <<"DIVERGE", id, index>>. *)
(* The requirement is always the DEFINITIONAL one (Nearest, Expand, union). *)
(*                                                                          *)
(* row kinds                                                                *)
(*  "sel" : files (entity tables), mode "sweep" | "multi" | "files",        *)
(*          runs: [locs: <<[f, line]>>, exc, via, feats: <<[f, present,     *)
(*          sel, skp]>>]  -- one element of feats per returned Feature      *)
(*          object; present/sel/skp = start lines of its scenarios, of the  *)
(*          ones left to run (via "flag": should_skip = False, via          *)
(*          "status": status passed after a real run), of the skipped ones  *)
(*  "list": files, here, list (abstract list file), locs_exc, locs          *)
(*          (locations returned for "@listfile"), run (as above)            *)
(*  "name": pats, exc, obs: <<[line, name, sel, ran, status]>>              *)
EXTENDS Select, TLC, Json, IOUtils
Rows == ndJsonDeserialize(IOEnv.TRACE_FILE)
\* models the unrepaired FeatureListParser.parse (join with the unstripped line); only used for DIVERGE lines
ListJoinsUnstripped == FALSE

VARIABLE i
Init == i = 1
R == Rows[i]

\* ---------------------------------------------------------------- one run over some files
FeatsOf(run, f) == {n \in DOMAIN run.feats : run.feats[n].f = f}
In(line, s) == \E k \in DOMAIN s : s[k] = line
FileClauses(mode, E, f, run) ==
   LET L       == LinesOf(run.locs, f)
       fs      == FeatsOf(run, f)
       req     == ReqSel(E, L)
       ex      == Exempt(E)
       Sel(j)  == \E n \in fs : In(E[j].line, run.feats[n].sel)
       Skp(j)  == \E n \in fs : In(E[j].line, run.feats[n].skp)
       Seen(j) == \E n \in fs : In(E[j].line, run.feats[n].present)
       AllSkp(j) == \A n \in fs : In(E[j].line, run.feats[n].present) => In(E[j].line, run.feats[n].skp)
       missing == {j \in req : ~Sel(j)}                                          \* addressed but not left to run
       extra   == {j \in (Scens(E) \ req) \ ex : Seen(j) /\ ~AllSkp(j)}          \* not addressed, not skipped
       exskip  == {j \in ex \ req : Skp(j)}                                      \* @setup/@teardown skipped
       cmiss   == CASE mode = "files" -> "C10.files"
                    [] 0 \in L        -> "C10.all"
                    [] mode = "multi" -> "C10.union"
                    [] OTHER          -> "C10.line"
       cextra  == CASE mode = "files" -> "C10.files" [] mode = "multi" -> "C10.union" [] OTHER -> "C10.others_skipped"
   IN IF \E l \in L : ~Stated(E, l) THEN {}      \* a line between 1 and the feature's first line: not judged
      ELSE (IF missing # {} THEN {cmiss} ELSE {})
           \cup (IF extra # {} THEN {cextra} ELSE {})
           \cup (IF exskip # {} THEN {"C10.exempt"} ELSE {})
RunClauses(mode, files, run) == UNION {FileClauses(mode, files[f], f, run) : f \in DOMAIN files}

\* code model: one feature object per group of consecutive same-file locations, with exactly these skipped
LinesOfScens(E, S) == {E[j].line : j \in S}
RunDiverges(files, run) ==
   /\ run.via = "flag"
   /\ \A n \in DOMAIN run.locs : run.locs[n].f \in DOMAIN files
   /\ \/ run.exc # ""
      \/ LET res == ParseFeatures(run.locs, files) IN
         \/ Len(res) # Len(run.feats)
         \/ \E n \in DOMAIN res : \/ run.feats[n].f # res[n].f
                                  \/ Range(run.feats[n].skp) # LinesOfScens(files[res[n].f], res[n].skipped)
                                  \/ Range(run.feats[n].present) # LinesOfScens(files[res[n].f], Scens(files[res[n].f]))


SelOut(r) == /\ \A n \in DOMAIN r.runs : \A c \in RunClauses(r.mode, r.files, r.runs[n]) : PrintT(<<"VERDICT", r.id, c, n>>)
             /\ \A n \in DOMAIN r.runs : RunDiverges(r.files, r.runs[n]) => PrintT(<<"DIVERGE", r.id, n>>)

\* ---------------------------------------------------------------- list files
\* required: every entry line yields its location (in order), comments and blank lines yield nothing
SameLocs(a, b) == Len(a) = Len(b) /\ \A n \in DOMAIN a : a[n].f = b[n].f /\ a[n].line = b[n].line
ListOut(r) ==
   LET bad == r.locs_exc # "" \/ ~SameLocs(r.locs, ListDef(r.list)) IN
   /\ bad => PrintT(<<"VERDICT", r.id, "C10.listfile", 0>>)
   \* the selection through the list file is judged only when the locations were the required ones
   /\ ~bad => \A c \in RunClauses("files", r.files, r.run) : PrintT(<<"VERDICT", r.id, c, 1>>)
   /\ (r.locs_exc # "" \/ ~SameLocs(r.locs, ListCode(r.list, r.here = "dot", ListJoinsUnstripped)))
         => PrintT(<<"DIVERGE", r.id, 0>>)
   /\ (~bad /\ RunDiverges(r.files, r.run)) => PrintT(<<"DIVERGE", r.id, 1>>)

\* ---------------------------------------------------------------- names
\* runs exactly the scenarios whose (observed) name matches one of the given patterns
NameBad(r, o) == LET want == NameSelDef(r.pats, o.name) IN
                 \/ o.sel # want
                 \/ o.ran /\ want /\ o.status # "passed"
                 \/ o.ran /\ ~want /\ o.status # "skipped"
NameOut(r) ==
   /\ r.exc # "" => PrintT(<<"VERDICT", r.id, "C10.name", 0>>)
   /\ \A n \in DOMAIN r.obs : NameBad(r, r.obs[n]) => PrintT(<<"VERDICT", r.id, "C10.name", n>>)
   /\ \A n \in DOMAIN r.obs : (r.obs[n].sel # NameSelCode(r.pats, r.obs[n].name)) => PrintT(<<"DIVERGE", r.id, n>>)

Next == /\ i <= Len(Rows)
        /\ CASE R.kind = "sel"  -> SelOut(R)
             [] R.kind = "list" -> ListOut(R)
             [] R.kind = "name" -> NameOut(R)
             [] OTHER -> PrintT(<<"VERDICT", R.id, "C10.unknown_row", 0>>)
        /\ i' = i + 1
Spec == Init /\ [][Next]_i
Done == PrintT(<<"DONE", Len(Rows), TLCGet("stats").diameter>>)
=============================================================================
