"""Case files for Run_MC / rows for the trace judge."""
from . import gen as G


def tla_prog(flat):
    out = []
    for e in flat["elems"]:
        out.append({"kind": e["kind"], "parent": e["parent"], "tags": e["tags"], "children": e["children"],
                    "steps": [{"stype": s["stype"], "o": s["o"], "o2": s["o2"], "def": s["def"], "org": s["org"], "k": s["k"], "cl_id": s["cl_id"],
                               "cl_layer": s["cl_layer"], "cl_raises": s["cl_raises"]} for s in e["steps"]],
                    "has_bg": e["has_bg"]})
    return out


def tla_cfg(c):
    ex = G.EXPRS[c["expr"]]
    names = [x for x in (c.get("logfilter") or "").split(",") if x]
    return {"loglvl": {"": 20, "DEBUG": 10, "INFO": 20, "WARNING": 30, "ERROR": 40, "CRITICAL": 50}[c.get("loglevel") or ""],
            "loginc": [x for x in names if not x.startswith("-")], "logexc": [x[1:] for x in names if x.startswith("-")],
            "name_on": c.get("names") is not None, "namesel": list(c.get("names") or []),
            "setuplog": {"": 0, "DEBUG": 10, "INFO": 20, "WARNING": 30, "ERROR": 40, "CRITICAL": 50}[c.get("setuplog") or ""],
            "capdeco": bool(c.get("capdeco", False)), "rootlvl0": bool(c.get("rootlvl0", False)), "wip": bool(c.get("wip", False)), "logclear": bool(c.get("logclear", False)), "stop": c["stop"], "dry": c["dry"], "show_skipped": c["show_skipped"], "cont": c["cont"],
            "cap_out": c["cap_out"], "cap_err": c["cap_err"], "cap_log": c["cap_log"], "expr": c["expr"], "retry": bool(c.get("retry", False)),
            "nodes": [{"op": n[0], "a": n[1], "b": n[2], "name": n[3]} for n in ex["nodes"]], "root": ex["root"]}


def tla_skips(skips):
    """entries [hook name, element] (the hook calls skip() on its own element) or [hook name, element, target]"""
    return [{"name": x[0], "el": x[1], "target": x[2] if len(x) > 2 else x[1]} for x in (skips or [])]


def make_case(tid, prog, cfgs, faults):
    """prog may carry "skips": [[hook name, element id], ...] -- hooks that call element.skip() at run time"""
    flat = G.flatten(prog)
    return {"tid": tid, "prog": tla_prog(flat), "features": flat["features"], "cfgs": [tla_cfg(c) for c in cfgs],
            "faults": [list(f) for f in faults], "skips": tla_skips(prog.get("skips")),
            "hookcl": bool(prog.get("hookcl")), "typed": bool(prog.get("typed")), "kbd": bool(prog.get("kbdhooks"))}, flat
