"""Rendering of a well-formed abstract document (lines emitted by GherkinDoc_MC) with all the freedom the
statement of C04 grants: language, every alias, indentation, separators, trailing blanks, cell padding."""
from . import render

PADS = [u"", u" ", u"  ", u"    ", u"      ", u"\t", u" \t", u"        "]
SPACE_PADS = [u"", u"  ", u"    ", u"     ", u"        "]
CLASS_KEYS = ["F", "R", "B", "S", "O", "E", "given", "when", "then", "and", "but", "star"]


def star_ok(name):
    k = render.languages()[name]
    return any("* " in k[t] for t in render.STEP_TYPES)


def class_key(ln):
    return ln["a"] if ln["c"] == "Step" else ln["c"]


def aliases_for(lg, key):
    if key in render.STRUCT:
        return lg.struct_aliases(key)
    return lg.step_aliases(key)


def decorate(lines, lang_name, rnd, pick, header=False, tags_entry=False):
    """-> (text lines, decorated lines, creators, texts)
    pick(key, aliases, line index) chooses the alias; creators = indices (0-based) of the lines that create a
    model element, in order."""
    lg = render.lang(lang_name)
    texts = render.Texts(rnd, safe_for=(lang_name,))
    out, dec, creators = [], [], []
    in_doc = None           # (quote, pad) while inside a doc-string
    has_step = False        # a step precedes in the current statement
    for k, ln0 in enumerate(lines):
        ln = dict(ln0)
        c = ln["c"]
        if header:
            ln["lg"] = 2
        trail = u""
        if in_doc is not None:
            q, pad0 = in_doc
            if c == "Doc" and ln["a"] == q:
                ln["pad"] = pad0
                in_doc = None
                trail = rnd.choice([u"", u"", u"  ", u"\t", u" \t "])          # blanks after the closing quotes
            else:
                ln["pad"] = pad0 + u" " * ln0.get("ind", 0)
                if c == "_":
                    ln["blank"] = rnd.choice([u"", pad0, u" "])
        else:
            if c == "Doc":
                ln["pad"] = rnd.choice(SPACE_PADS)
                in_doc = (ln["a"], ln["pad"])
                # invisible blanks after the opening quotes: the indentation is the column of the quotes, nothing else
                trail = rnd.choice([u"", u" ", u"   ", u"\t", u"  \t", u"      "])
            else:
                ln["pad"] = rnd.choice(PADS)
                trail = rnd.choice([u"", u"", u"", u" ", u"  \t"])
            if c == "Step" and ln["a"] == "star" and not star_ok(lang_name):
                # en-tx, sl: no '* ' alias; And is equivalent after a step, Given where '*' opens the statement
                ln["a"] = "and" if has_step else "given"
            if c in render.STRUCT:
                has_step = False
            elif c == "Step":
                has_step = True
            if c in render.STRUCT or c == "Step":
                key = class_key(ln)
                ln["alias"] = pick(key, aliases_for(lg, key), k)
                creators.append(k)
                if c in render.STRUCT:
                    ln["sep"] = rnd.choice([u" ", u" ", u"", u"   ", u"\t"])
            elif c == "Tags":
                ln["gap"] = rnd.choice([u" ", u" ", u"  ", u"\t", u" \t "])
            elif c == "Row":
                ln["cellpad"] = rnd.choice([0, 1, 1, 2, 3])
            elif c == "_":
                ln["blank"] = rnd.choice([u"", u"", u"   ", u"\t"])
        ln["ind"] = len(ln["pad"]) if c != "_" else 0
        t, kw = render.to_text(ln, render.lang("en") if header else lg, lg, texts, rnd)
        ln["kw"] = kw
        out.append(t + trail)
        dec.append(ln)
    return out, dec, creators, texts


def header_lines(rnd):
    """abstract lines that put a '# language: xx' header in front (optionally after a comment / blank line)"""
    pre = []
    r = rnd.random()
    if r < 0.25:
        pre.append({"c": "#", "a": "", "ps": [900001], "ind": 0, "lg": 1, "kw": 0})
    elif r < 0.4:
        pre.append({"c": "_", "a": "", "ps": [], "ind": 0, "lg": 1, "kw": 0})
    pre.append({"c": "Lang", "a": "known", "ps": [], "ind": 0, "lg": 2, "kw": 0,
                "hdr": rnd.choice([u"# language: ", u"#language:", u"#  language:   ", u"# Language: "])})
    return pre
