\* attribute alphabet with 1 name + failed, 2 values: length 4 below feature+scenario
INIT Init
NEXT Next
CONSTANTS
  OpsAt <- Ops0040
  UNames = {1}
  Vals = {1, 2}
  WithFailed = TRUE
  WithRoot = TRUE
  WithUseOr = TRUE
  WithReads = FALSE
  WithMode = TRUE
  WithExec = TRUE
  MaxIds = 0
  ArgModes = {0}
  WithFixtures = FALSE
  WithAttrs = TRUE
  NestSet <- NestNone
  TwoRuns = FALSE
  OpsB = 0
  EqualLayers = FALSE
  UseOrRoot = FALSE
INVARIANT Visible
INVARIANT Shadow
INVARIANT DeleteLocal
INVARIANT ScopeEnd
INVARIANT RootAttr
INVARIANT CleanupOnce
INVARIANT CleanupLifo
INVARIANT CleanupDespiteErrors
INVARIANT CleanupLayer
INVARIANT FixtureCleanup
INVARIANT ExecStepsRestore
INVARIANT ApiErrors
INVARIANT Shape
INVARIANT ViewsAgree
INVARIANT Emit
