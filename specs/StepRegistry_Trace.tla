------------------------- MODULE StepRegistry_Trace -------------------------
(* Judge of C11 on rows recorded from the real StepRegistry / step matchers. *)
(* One row = one registration history replayed through load_step_modules()   *)
(* plus the lookups done afterwards; one state per row; a violated clause is  *)
(* printed as <<"VERDICT", row id, clause, "reg"|"look", index, info>>.        *)
(*                                                                             *)
(* row.acts[i]   : [a, kind, ty, pat, func, res]   a in {setdef, use, end,      *)
(*                 retype, reg}                                                 *)
(*                 res (observed) in {ok, ignored, ambiguous, exc}              *)
(* row.looks[k]  : [ty, toks, out, func, args, run, calls, pos, kw]             *)
(*                 out in {none, match, error, exc}; func = 0: none / unknown   *)
(*                 args[n] = [start, end, has_orig, orig, has_name, name, val]  *)
(*                 run in {ok, exc, skip}; pos = values received by position,   *)
(*                 kw = [name, val] received by keyword                         *)
(* The judge keeps its own registry (the entries whose registration was        *)
(* observed to be accepted) and states every clause relative to it.            *)
EXTENDS StepRegistry, TLC, Json, IOUtils
Rows == ndJsonDeserialize(IOEnv.TRACE_FILE)

VARIABLE i
Init == i = 1
R == Rows[i]

V(clause, where, idx, info) == <<clause, where, idx, info>>

\* ---------------------------------------------------------------- registrations
\* "the very same function and pattern": same function (location), same pattern text, same matcher
Strict(e, text, mk, func) == e.func = func /\ e.text = text /\ e.kind = mk
\* same function and the same pattern in another spelling or under another matcher: the statement is silent
Weak(e, p, text, func)    == e.func = func /\ (e.text = text \/ e.stored = text \/ e.pat = p)
RegVerdicts(st, a, idx) ==
   LET mk   == st.current
       text == Render(a.pat, mk)
       list == st.steps[a.ty]
       L    == DOMAIN list
       strict   == \E n \in L : Strict(list[n], text, mk, a.func)
       other    == \E n \in L : ~Strict(list[n], text, mk, a.func) /\ Matches(list[n], text)
       weak     == \E n \in L : Weak(list[n], a.pat, text, a.func)
       weakhit  == \E n \in L : Weak(list[n], a.pat, text, a.func) /\ Matches(list[n], text)
       foreign  == \E n \in L : ~Weak(list[n], a.pat, text, a.func) /\ Matches(list[n], text)
       allowed  == IF strict THEN (IF other THEN {"ignored", "ambiguous"} ELSE {"ignored"})
                   ELSE IF foreign THEN (IF weak THEN {"ambiguous", "ignored"} ELSE {"ambiguous"})
                   ELSE IF weakhit THEN {"ignored", "ambiguous"}
                   ELSE IF weak THEN {"ok", "ignored"}
                   ELSE {"ok"}
   IN IF a.res \in allowed THEN {}
      ELSE IF a.res = "exc" THEN {V("C11.ambiguous", "reg", idx, mk)}
      ELSE IF strict /\ ~other THEN {V("C11.same_ignored", "reg", idx, mk)}
      ELSE IF allowed = {"ambiguous"} THEN {V("C11.ambiguous", "reg", idx, mk)}       \* had to be rejected
      ELSE IF a.res = "ignored" THEN {V("C11.same_ignored", "reg", idx, mk)}
      ELSE {V("C11.ambiguous", "reg", idx, mk)}

StepAct(J, a, idx) ==
   CASE a.a = "use"    -> [J EXCEPT !.st = UseMatcher(@, a.kind)]
     [] a.a = "setdef" -> [J EXCEPT !.st = SetDefault(@, a.kind)]
     [] a.a = "end"    -> [J EXCEPT !.st = ModuleEnd(@)]
     [] a.a = "retype" -> [J EXCEPT !.st = ReType(@)]
     [] a.a = "clear"  -> [J EXCEPT !.st = Clear(@)]
     [] a.a = "reg"    -> IF a.ty \notin Types \/ a.pat = <<>> THEN J
                          ELSE [st |-> IF a.res = "ok"       \* adopt what was observed
                                       THEN [J.st EXCEPT !.steps[a.ty] = Append(@, Entry(a.pat, J.st.current, a.func, J.st.tver))]
                                       ELSE J.st,
                                v  |-> J.v \cup RegVerdicts(J.st, a, idx)]
     [] OTHER -> J
RECURSIVE RunActs(_,_,_)
RunActs(acts, idx, J) == IF idx > Len(acts) THEN J ELSE RunActs(acts, idx + 1, StepAct(J, acts[idx], idx))

\* ---------------------------------------------------------------- lookups
Participates(e, a) == a.has_orig /\ ~(e.k \in FusedKinds /\ a.orig = <<>>)
\* the step text rebuilt from the pattern and the reported original texts
OrigPiece(e, mk, a, first) ==
   LET sp == IF first THEN <<>> ELSE <<" ">> IN
   IF e.k \in FusedKinds THEN (IF ~Participates(e, a) THEN <<>> ELSE IF mk \in ParseKinds THEN a.orig ELSE <<" ">> \o a.orig)
   ELSE sp \o a.orig
Rebuilt(p, mk, args) ==
   LET fidx(n) == Cardinality({m \in 1..n : p[m].k # "lit"})
   IN Flat([n \in DOMAIN p |-> IF p[n].k = "lit" THEN (IF n = 1 THEN <<>> ELSE <<" ">>) \o p[n].w
                               ELSE OrigPiece(p[n], mk, args[fidx(n)], n = 1)])
\* the class member a field matched (an optional cfparse field reports its blank, too)
TokOf(e, mk, a) == IF e.k \in FusedKinds /\ mk \in ParseKinds /\ a.orig # <<>> /\ a.orig[1] = " " THEN Tail(a.orig) ELSE a.orig
\* the argument that belongs to field n: a named field's by its name, the k-th anonymous field's is the k-th
\* anonymous argument (the statement orders only those; where Match.arguments puts zero-width arguments is open)
ArgsOk(e, l) ==
   LET fs == Fields(e.pat)
       A  == l.args
       anonA == SelectSeq(A, IsAnonArg)
       withName(nm) == {m \in DOMAIN A : A[m].has_name /\ A[m].name = nm}
       anonIdx(n) == Cardinality({m \in 1..n : fs[m].name = <<>>})
   IN /\ Len(A) = Len(fs)
      /\ Len(anonA) = Cardinality({n \in DOMAIN fs : fs[n].name = <<>>})
      /\ \A n \in DOMAIN fs : fs[n].name # <<>> => Cardinality(withName(fs[n].name)) = 1
      /\ LET AF == [n \in DOMAIN fs |-> IF fs[n].name # <<>> THEN A[CHOOSE m \in withName(fs[n].name) : TRUE]
                                                             ELSE anonA[anonIdx(n)]]
         IN /\ \A n \in DOMAIN fs : fs[n].k \notin FusedKinds => AF[n].has_orig
            /\ Rebuilt(e.pat, e.kind, AF) = Join(l.toks)
            /\ \A n \in DOMAIN fs :
                  Participates(fs[n], AF[n]) =>
                     LET tok == TokOf(fs[n], e.kind, AF[n]) IN
                     /\ InClass(fs[n].k, tok)
                     /\ (fs[n].k \in FusedKinds /\ e.kind \in ParseKinds) => AF[n].orig[1] = " "
                     /\ AF[n].val = Conv(e.kind, fs[n].k, tok, AF[n].orig)
            \* a cfparse cardinality field that took nothing: its converter yields None (?) / [] (*), and that --
            \* not the empty matched text -- is the parameter; an unmatched regex group is not judged
            /\ \A n \in DOMAIN fs :
                  (fs[n].k \in FusedKinds /\ e.kind \in ParseKinds /\ ~Participates(fs[n], AF[n])) =>
                     AF[n].val = AbsentVal(fs[n].k)
CallOk(l) ==
   LET A == l.args
       anon  == SelectSeq(A, IsAnonArg)
       named == {n \in DOMAIN A : A[n].has_name}
   IN /\ l.run = "ok" /\ l.calls = 1
      /\ l.pos = [n \in DOMAIN anon |-> anon[n].val]
      /\ Len(l.kw) = Cardinality(named)
      /\ {l.kw[n] : n \in DOMAIN l.kw} = {[name |-> A[n].name, val |-> A[n].val] : n \in named}
SpansOk(l) ==
   LET A == l.args
       chars == Join(l.toks)
   IN /\ \A n \in DOMAIN A : A[n].has_orig =>
            /\ 0 <= A[n].start /\ A[n].start <= A[n].end /\ A[n].end <= Len(chars)
            /\ SubSeq(chars, A[n].start + 1, A[n].end) = A[n].orig
      /\ \A n, m \in DOMAIN A : (n < m /\ A[n].has_orig /\ A[m].has_orig) => A[n].end <= A[m].start

LookVerdicts(st, l, idx) ==
   LET c     == IF l.ty \in Types THEN Cands(st, l.ty) ELSE <<>>
       hits  == {n \in DOMAIN c : Match(c[n].pat, l.toks).ok}
       first == IF hits = {} THEN 0 ELSE CHOOSE n \in hits : \A m \in hits : n <= m
       all   == UNION {{st.steps[t][n] : n \in DOMAIN st.steps[t]} : t \in Types}
       mine  == {n \in DOMAIN c : c[n].func = l.func}
   IN IF l.out = "none" THEN (IF first # 0 THEN {V("C11.precedence", "look", idx, "unbound")} ELSE {})
      ELSE IF l.out = "exc" THEN {V(IF first # 0 THEN "C11.precedence" ELSE "C11.fulltext", "look", idx, "exception")}
      ELSE IF first # 0 /\ c[first].func = l.func THEN
           \* the right definition: judge what it reported and what the function received
           (IF l.out = "error" THEN {V("C11.args", "look", idx, c[first].kind)}
            ELSE (IF SpansOk(l) THEN {} ELSE {V("C11.spans", "look", idx, c[first].kind)})
                 \cup (IF ArgsOk(c[first], l) /\ CallOk(l) THEN {} ELSE {V("C11.args", "look", idx, c[first].kind)}))
      ELSE IF mine \cap hits # {} THEN {V("C11.precedence", "look", idx, "later")}
      ELSE IF mine # {} THEN
           (IF \E n \in mine : MatchCI(c[n].pat, l.toks).ok
            THEN {V("C11.case", "look", idx, c[CHOOSE n \in mine : MatchCI(c[n].pat, l.toks).ok].kind)}
            ELSE {V("C11.fulltext", "look", idx, c[CHOOSE n \in mine : TRUE].kind)})
      ELSE {V("C11.type_or_generic", "look", idx, IF \E e \in all : e.func = l.func THEN "other_type" ELSE "unknown")}

Clauses(r) ==
   LET J == RunActs(r.acts, 1, [st |-> InitReg, v |-> {}])
   IN J.v \cup UNION {LookVerdicts(J.st, r.looks[k], k) : k \in DOMAIN r.looks}

Next == /\ i <= Len(Rows)
        /\ \A c \in Clauses(R) : PrintT(<<"VERDICT", R.id, c[1], c[2], c[3], c[4]>>)
        /\ i' = i + 1
Spec == Init /\ [][Next]_i
Done == PrintT(<<"DONE", Len(Rows), TLCGet("stats").diameter>>)
=============================================================================
