INIT Init
NEXT Next
CONSTANTS
  MaxEnt = 7
  Profiles <- ProfThorough
  STags <- TagsAll
  OTags <- TagsTwo
  MaxTagged <- TaggedThorough
  MaxList = 3
  ListPool <- PoolThorough
  Texts <- TextsThorough
INVARIANT BisectIsNearest
INVARIANT ZeroSelectsAll
INVARIANT UnionLaw
INVARIANT SetupTeardownExempt
INVARIANT GroupingLaw
INVARIANT ListFileLaw
INVARIANT NameLaw
INVARIANT Emit
