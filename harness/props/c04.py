"""C04 -- Gherkin parsing is faithful: structure, text, tags, step types and line numbers.

(S) specs/GherkinParser.tla + specs/GherkinDoc.tla   (MC) specs/GherkinDoc_MC.tla   judge: specs/GherkinDoc_Trace.tla
TLC enumerates the documents of the grammar within the bound (and simulates large ones), proves that the line
machine returns exactly the model the grammar wrote down and that injected blank/comment lines change nothing but
line numbers, and emits each document.  The driver renders every document (language, every alias, indentation,
quote styles, escaped pipes, empty cells, tag comments), parses it through parse_feature / parse_file and the
marked fragments through parse_steps / parse_scenario / parse_rule / parse_tags, projects the returned model to
the abstract element table, and TLC judges the rows.  ModelDescriptor.describe_table / describe_docstring are
bound the other way round (model -> text -> parse -> same model)."""
import json
import os
import random
import shutil
import tempfile

from vlib import trace
from gherkin import render, observe, project, docrender

QUICK_LANGS = ["en", "de", "zh-CN", "ja", "ht", "ru", "ar", "en-pirate"]
WORKERS = int(os.environ.get("VERIF_WORKERS", "16"))
SIM_ENV = {"JAVA_TOOL_OPTIONS": "-Xss64m"}


def spec_lines(dec):
    return [render.spec_line(ln) for ln in dec]


def line_attr(dec, creators, j, entry):
    """class and alias of the line that created expected element j (1-based; 0 = none)"""
    if entry == "steps":
        j -= 1
    if 1 <= j <= len(creators):
        ln = dec[creators[j - 1]]
        return "%s:%s" % (ln["c"], ln["a"]) if ln["c"] == "Step" else ln["c"], ln.get("alias", "")
    return "-", ""


def observe_doc(entry, text, lang, header, ids, scratch):
    """parse + project; -> (row fields, at)"""
    lg = render.lang(lang)
    if entry == "file":
        path = os.path.join(scratch, "doc.feature")
        with open(path, "wb") as fh:
            fh.write(text.encode("utf8"))
        obs, result = observe.outcome("file", None, language=None if header else lang, filename=path)
    elif entry == "tags":
        obs, result = observe.outcome("tags", text)
    else:
        obs, result = observe.outcome(entry, text, language=None if header else lang)
    ok, elems, tags = False, [], []
    if obs["k"] == "accept":
        try:
            ok, elems, tags = project.project(entry, result, ids, lg, ["en", lang] if header else [lang])
        except Exception as e:      # the returned object is not a model the projection can walk
            obs = dict(obs, k="internal", exc="projection:" + type(e).__name__)
    return {"ok": ok, "exc": obs["exc"] if obs["k"] != "accept" else "", "elems": elems, "tags": tags, "obs": obs}, obs.get("at", "")


def describe_rows(result, dec_by_line, lang, texts, rnd):
    """ModelDescriptor the other way round: every table / doc-string of the parsed feature -> text -> parse_steps"""
    from behave.model_describe import ModelDescriptor
    out = []
    steps = []
    if getattr(result, "background", None) is not None:
        steps += list(result.background.steps)
    for item in getattr(result, "run_items", []):
        if hasattr(item, "run_items"):
            if item.background is not None:
                steps += list(item.background.steps)
            for s in item.run_items:
                steps += list(s.steps)
        else:
            steps += list(item.steps)
    ids = texts.ids()
    lg = render.lang(lang)
    alias = lg.step_aliases("given")[0]
    for s in steps:
        if (s.table is None and s.text is None) or s.name not in ids:
            continue
        indentation = rnd.choice([None, u"  ", u"      "])
        ind = len(indentation or u"")
        head = {"c": "Step", "a": "given", "ps": [ids[s.name]], "ind": 0, "lg": 1, "kw": lg.alias_id(alias.rstrip())}
        lines = [head]
        if s.table is not None:
            cells = [list(s.table.headings)] + [list(r.cells) for r in s.table.rows]
            if any(("\\" in c or "\n" in c) for row in cells for c in row) or any(c not in ids for row in cells for c in row):
                continue
            text = ModelDescriptor.describe_table(s.table, indentation)
            for row in cells:
                lines.append({"c": "Row", "a": "ok", "ps": [ids[c] for c in row], "ind": ind, "lg": 1, "kw": 0})
            kind = "describe_table"
        else:
            body = u"%s" % s.text
            blines = body.split(u"\n") if body != u"" else []
            if u'"""' in body or any(b.strip() not in ids for b in blines):
                continue
            text = ModelDescriptor.describe_docstring(s.text, indentation)
            lines.append({"c": "Doc", "a": "dq", "ps": [], "ind": ind, "lg": 1, "kw": 0})
            for b in blines:
                st = b.lstrip(u" ")
                if st == u"":
                    lines.append({"c": "_", "a": "", "ps": [], "ind": 0, "lg": 1, "kw": 0})
                else:
                    c = "Doc" if st == u"'''" else "t"
                    lines.append({"c": c, "a": "sq" if c == "Doc" else "", "ps": [] if c == "Doc" else [ids[st]],
                                  "ind": ind + len(b) - len(st), "lg": 1, "kw": 0})
            lines.append({"c": "Doc", "a": "dq", "ps": [], "ind": ind, "lg": 1, "kw": 0})
            kind = "describe_docstring"
        out.append((kind, alias + s.name + u"\n" + text, lines))
    return out


_SCRATCH = {}


def _job(job):
    """one document in one language: all its renderings and entry points -> [(row, meta)]"""
    k, doc, lang, sweep, seed, scratch_root, tier = job
    observe.quiet_logging()
    rnd = random.Random(seed * 1000003 + k)
    scratch = _SCRATCH.get("dir")
    if scratch is None:
        scratch = _SCRATCH["dir"] = tempfile.mkdtemp(dir=scratch_root)
    out = []

    def pick(key, aliases, idx):
        return aliases[(sweep if sweep is not None else k + idx) % len(aliases)]

    def emit(kind, entry, text, dec, creators, texts, header):
        fields, at = observe_doc(entry, text, lang, header, texts.ids(), scratch)
        obs = fields.pop("obs")
        row = dict(fields, id=0, entry=entry, lines=spec_lines(dec))
        meta = {"kind": kind, "entry": entry, "text": text, "lang": lang, "header": header, "at": at, "obs": obs,
                "ids": {str(i): t for i, t in texts.by_id.items()},
                "attrs": [(ln["c"], ln.get("a", ""), ln.get("alias", "")) for ln in dec], "creators": creators, "doc": k}
        out.append((row, meta))
        return fields

    lines = doc["lines"]
    # (a) parse_feature(text, language=lang)
    tl, dec, creators, texts = docrender.decorate(lines, lang, rnd, pick)
    eol = rnd.choice(render.EOLS)
    text = eol.join(tl) + rnd.choice([u"", eol, eol + eol])
    emit("feature", "feature", text, dec, creators, texts, False)
    # (b) parse_file with a '# language:' header (every document in the sweep, every 2nd otherwise)
    if sweep is not None or k % 2 == 0:
        pre = docrender.header_lines(rnd)
        tl2, dec2, cr2, tx2 = docrender.decorate(pre + lines, lang, rnd, pick, header=True)
        eol2 = rnd.choice(render.EOLS)
        emit("file", "file", eol2.join(tl2) + eol2, dec2, cr2, tx2, True)
    # (c) fragments through the other entry points
    marks = doc["marks"]
    if sweep is None and tier == "quick" and len(marks) > 6:
        marks = rnd.sample(marks, 6)
    for m in marks:
        frag = lines[m["a"] - 1:m["z"]]
        if m["e"] == "tags":
            # blank and comment lines before / between the tag lines: they must not shift the tags' line numbers
            spaced = []
            for n, ln in enumerate(frag):
                for _ in range(rnd.choice([0, 0, 1, 1, 2])):
                    spaced.append({"c": "_", "a": "", "ps": [], "ind": 0, "lg": 1, "kw": 0} if rnd.random() < 0.5 else
                                  {"c": "#", "a": "", "ps": [800000 + len(spaced)], "ind": 0, "lg": 1, "kw": 0})
                spaced.append(ln)
            frag = spaced
        tl3, dec3, cr3, tx3 = docrender.decorate(frag, lang, rnd, pick, tags_entry=(m["e"] == "tags"))
        eol3 = rnd.choice(render.EOLS)
        t3 = eol3.join(tl3)
        t3 += rnd.choice([u"", eol3])
        emit("fragment", m["e"], t3, dec3, cr3, tx3, False)
    # (d) ModelDescriptor round trip on what parse_feature returned
    if sweep is None:
        obs, result = observe.outcome("feature", text, language=lang)
        if obs["k"] == "accept" and result is not None:
            try:
                triples = describe_rows(result, None, lang, texts, rnd)
            except Exception:
                triples = []
            for kind, t4, l4 in triples[:4]:
                fields, at = observe_doc("steps", t4, lang, False, texts.ids(), scratch)
                obs4 = fields.pop("obs")
                row = dict(fields, id=0, entry="steps", lines=[render.spec_line(x) for x in l4])
                meta = {"kind": kind, "entry": "steps", "text": t4, "lang": lang, "header": False, "at": at, "obs": obs4,
                        "ids": {str(i): t for i, t in texts.by_id.items()},
                        "attrs": [(x["c"], x.get("a", ""), "") for x in l4], "creators": [0], "doc": k}
                out.append((row, meta))
    return out


def run_jobs(jobs, procs):
    if procs <= 1 or len(jobs) < 200:
        res = [_job(j) for j in jobs]
    else:
        import multiprocessing
        ctx = multiprocessing.get_context("fork")
        with ctx.Pool(procs) as pool:
            res = pool.map(_job, jobs, chunksize=50)
    return [x for part in res for x in part]


def sig_of(v, row, m):
    clause, j, field = v[2], v[3], v[4]
    if field == "exception":
        return "%s|entry=%s|field=exception|exc=%s|at=%s" % (clause, m["entry"], m["obs"]["exc"] or "None", m["at"])
    if m["entry"] == "tags":
        return "%s|entry=tags|field=%s" % (clause, field)
    cls, alias = "-", ""
    jj = j - 1 if m["entry"] == "steps" else j
    if 1 <= jj <= len(m["creators"]) and m["creators"][jj - 1] < len(m["attrs"]):
        a = m["attrs"][m["creators"][jj - 1]]
        cls = "%s:%s" % (a[0], a[1]) if a[0] == "Step" else a[0]
        alias = a[2]
    entry = m["entry"] if m["kind"] in ("feature", "file", "fragment") else m["kind"]
    if field == "language":
        return "%s|entry=%s|lang=%s|field=language|line=%s" % (clause, entry, m["lang"], cls)
    if field in ("step_type", "name", "keyword", "shape"):       # may depend on the keyword table: name language and alias
        return "%s|entry=%s|lang=%s|field=%s|line=%s|alias=%s" % (clause, entry, m["lang"], field, cls, alias.strip())
    return "%s|entry=%s|field=%s|line=%s" % (clause, entry, field, cls)


def covering_docs(docs, n):
    """the smallest documents that contain every keyword class (templates of the alias sweep)"""
    full = []
    for d in docs:
        keys = {docrender.class_key(ln) for ln in d["lines"] if ln["c"] in render.STRUCT or ln["c"] == "Step"}
        if all(x in keys for x in docrender.CLASS_KEYS):
            full.append(d)
    full.sort(key=lambda d: (len(d["lines"]), json.dumps(d["lines"], sort_keys=True)))
    return full[:n]


def run(chk):
    observe.quiet_logging()
    rnd = random.Random(chk.seed)
    quick = chk.quick()
    # shape: all structures; detail: all menus on tiny documents; steps: all step-keyword sequences ('*' / And / But first
    # and after each other) in every container kind below backgrounds of both levels
    cfgs = ["GherkinDoc_MC_quick.cfg", "GherkinDoc_MC_quick_detail.cfg", "GherkinDoc_MC_quick_steps.cfg", "GherkinDoc_MC_quick_extab.cfg"] if quick else \
           ["GherkinDoc_MC_thorough.cfg", "GherkinDoc_MC_thorough_detail.cfg", "GherkinDoc_MC_thorough_steps.cfg", "GherkinDoc_MC_thorough_extab.cfg"]
    docs = []
    for cfg in cfgs:
        r = chk.tlc("GherkinDoc_MC", cfg, timeout=840, workers=WORKERS, heap="8g")
        for name in r.violated:
            chk.violation("C04.design." + name, "design:%s" % name, "TLC: invariant %s violated in GherkinDoc_MC (%s)" % (name, cfg))
        docs += [json.loads(t[1]) for t in r.by_tag("DOC")]
    n_bfs = len(docs)
    rs = chk.tlc("GherkinDoc_MC", "GherkinDoc_MC_sim.cfg", timeout=600, workers=1, simulate=60 if quick else 600,
                 depth=22, env=SIM_ENV)
    for name in rs.violated:
        chk.violation("C04.design." + name, "design:%s" % name, "TLC: invariant %s violated in GherkinDoc_MC simulation" % name)
    sim = [json.loads(t[1]) for t in rs.by_tag("DOC")]
    seen = set()
    for d in sim:
        key = json.dumps(d["lines"], sort_keys=True)
        if key not in seen:
            seen.add(key)
            docs.append(d)
    docs.sort(key=lambda d: (len(d["lines"]), json.dumps(d["lines"], sort_keys=True)))
    chk.exhaustive = True

    all_langs = sorted(render.languages())
    if quick:
        base = list(QUICK_LANGS) + [l for l in render.prefix_languages() if l not in QUICK_LANGS]
        langs = base + rnd.sample([l for l in all_langs if l not in base], 4)
    else:
        langs = list(QUICK_LANGS) + [l for l in all_langs if l not in QUICK_LANGS]
    scratch_root = tempfile.mkdtemp(prefix="verif-c04-")
    try:
        jobs = []
        order = list(range(len(docs)))
        rnd.shuffle(order)
        for n, k in enumerate(order):
            jobs.append((k, docs[k], langs[n % len(langs)], None, chk.seed, scratch_root, chk.tier))
        # alias sweep: every alias of every keyword of every language, on documents that contain every keyword class
        templates = covering_docs(docs, 2)
        if not templates:
            chk.note("no document contains every keyword class: alias sweep reduced")
            templates = docs[-2:]
        n_sweep = 0
        for lang in langs:
            lg = render.lang(lang)
            most = max(len(docrender.aliases_for(lg, key)) for key in docrender.CLASS_KEYS)
            for s in range(most):
                t = templates[s % len(templates)]
                jobs.append((len(docs) + n_sweep, t, lang, s, chk.seed, scratch_root, chk.tier))
                n_sweep += 1
        # language census: EVERY supported language at least once through parse_feature(language=) and through parse_file
        # with a '# language:' header (codes of every shape: xx, xxx, xx-YY, xx-word), also in the quick tier
        for lang in all_langs:
            if lang not in langs:
                jobs.append((len(docs) + n_sweep, templates[n_sweep % len(templates)], lang, 0, chk.seed, scratch_root, chk.tier))
                n_sweep += 1
        done = run_jobs(jobs, min(WORKERS, 8))
    finally:
        shutil.rmtree(scratch_root, ignore_errors=True)
    rows, meta = [], {}
    for n, (row, m) in enumerate(done):
        row["id"] = n + 1
        rows.append(row)
        meta[n + 1] = m
    verdicts = trace.judge_rows(chk, "GherkinDoc_Trace", rows, chunks=WORKERS)
    chk.impl_traces = len(rows)
    chk.evaluations = sum(len(row["elems"]) + len(row["tags"]) for row in rows)
    skipped = sum(len(res.by_tag("SKIP")) for mname, c, res in chk.tlc_runs if mname == "GherkinDoc_Trace")
    chk.divergences = sum(len(res.by_tag("DIV")) for mname, c, res in chk.tlc_runs if mname == "GherkinDoc_Trace")
    byid = {row["id"]: row for row in rows}
    vs_all = []
    for i, vs in verdicts.items():
        for v in vs:
            vs_all.append((len(meta[i]["text"]), i, v))
    for _, i, v in sorted(vs_all, key=lambda x: (x[0], x[1])):
        m = meta[i]
        row = byid[i]
        chk.violation(v[2], sig_of(v, row, m),
                      "entry=%s language=%s element#%s field=%s text=%s exc=%s" % (m["entry"], m["lang"], v[3], v[4], json.dumps(m["text"]), row["exc"]),
                      {"row": row, "meta": {x: m[x] for x in ("kind", "entry", "text", "lang", "header", "ids", "attrs", "creators")}})
    # coverage: aliases used per language
    used = {}
    for m in meta.values():
        for c, a, alias in m["attrs"]:
            if alias:
                used.setdefault(m["lang"], set()).add(((a if c == "Step" else c), alias))
    total = covered = 0
    for lang in langs:
        lg = render.lang(lang)
        for key in docrender.CLASS_KEYS:
            if key == "star" and not docrender.star_ok(lang):
                continue
            for al in docrender.aliases_for(lg, key):
                total += 1
                if (key, al) in used.get(lang, ()):
                    covered += 1
    for row in rows[:1] + rows[len(rows) // 2:len(rows) // 2 + 1] + rows[-1:]:
        m = meta[row["id"]]
        chk.sample({"entry": m["entry"], "language": m["lang"], "text": m["text"][:600], "elements": len(row["elems"]), "ok": row["ok"]})
    chk.rule = ("documents of the grammar GherkinDoc within the bound (TLC, exhaustive) + simulated large documents; each rendered in one "
                "language (round robin) via parse_feature, every 2nd via parse_file with language header, its fragments via parse_steps/"
                "parse_scenario/parse_rule/parse_tags, its tables/doc-strings via ModelDescriptor; + alias sweep (every alias of every keyword)")
    chk.extra["distinct_nontrivial"] = len({(m["entry"], m["text"]) for m in meta.values()})
    chk.extra["documents_bfs"] = n_bfs
    chk.extra["documents_simulated"] = len(docs) - n_bfs
    chk.extra["longest_document_lines"] = max(len(d["lines"]) for d in docs)
    chk.extra["rows_by_kind"] = {k: sum(1 for m in meta.values() if m["kind"] == k) for k in sorted({m["kind"] for m in meta.values()})}
    chk.extra["rows_by_entry"] = {k: sum(1 for m in meta.values() if m["entry"] == k) for k in sorted({m["entry"] for m in meta.values()})}
    chk.extra["languages"] = len(langs)
    chk.extra["aliases_total"] = total
    chk.extra["aliases_covered"] = covered
    chk.extra["rows_not_judged_fragment_not_standalone"] = skipped
    chk.assumptions = ["payload texts are chosen so that no keyword of the document's language reads them as anything but free text",
                       "one argument (table or doc-string) per step; doc-string lines carry no trailing blanks; no tabs inside doc-string indentation",
                       "'*' opening a statement is a Given (the keyword table lists '* ' under given first) and the steps after it inherit that; "
                       "And/But open a statement only below a background with steps",
                       "describe_table / describe_docstring: cells with backslash or newline and doc-strings containing \\\"\\\"\\\" are not judged "
                       "(the renderer escapes them, the parser has no unescaping; outside the statement)",
                       "languages without '* ' (en-tx, sl): '*' lines are written with an And alias (a Given alias where '*' opens the statement)",
                       "keyword attributes are compared case-insensitively (the parser matches step keywords case-insensitively and "
                       "reports its table's alias: ht 'Sipoze Ke' comes back as 'Sipoze ke')"]


def replay(chk, payload):
    observe.quiet_logging()
    row = payload["replay"]["row"]
    m = payload["replay"]["meta"]
    ids = {t: int(i) for i, t in m["ids"].items()}
    scratch = tempfile.mkdtemp(prefix="verif-c04-")
    try:
        fields, at = observe_doc(m["entry"], m["text"], m["lang"], m["header"], ids, scratch)
    finally:
        shutil.rmtree(scratch, ignore_errors=True)
    obs = fields.pop("obs")
    new = dict(fields, id=1, entry=m["entry"], lines=row["lines"])
    m2 = dict(m, at=at, obs=obs)
    verdicts = trace.judge_rows(chk, "GherkinDoc_Trace", [new], chunks=1)
    chk.impl_traces = 1
    for vs in verdicts.values():
        for v in vs:
            chk.violation(v[2], sig_of(v, new, m2), "replayed entry=%s language=%s text=%s" % (m["entry"], m["lang"], json.dumps(m["text"])),
                          {"row": new, "meta": m})
    chk.sample({"replayed": {"entry": m["entry"], "lang": m["lang"], "text": m["text"][:400]}, "ok": new["ok"], "exc": new["exc"]})
