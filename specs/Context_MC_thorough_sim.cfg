\* complete alphabet incl. get/has, for -simulate
INIT Init
NEXT Next
CONSTANTS
  OpsAt <- OpsSim5
  UNames = {1, 2}
  Vals = {1, 2, 6, 7}
  WithFailed = TRUE
  WithRoot = TRUE
  WithUseOr = TRUE
  WithReads = TRUE
  WithMode = TRUE
  WithExec = TRUE
  MaxIds = 3
  ArgModes = {0, 1}
  WithFixtures = TRUE
  WithAttrs = TRUE
  NestSet <- NestFew
  TwoRuns = FALSE
  OpsB = 0
  EqualLayers = TRUE
  UseOrRoot = TRUE
INVARIANT Visible
INVARIANT Shadow
INVARIANT DeleteLocal
INVARIANT ScopeEnd
INVARIANT RootAttr
INVARIANT CleanupOnce
INVARIANT CleanupLifo
INVARIANT CleanupDespiteErrors
INVARIANT CleanupLayer
INVARIANT FixtureCleanup
INVARIANT ExecStepsRestore
INVARIANT ApiErrors
INVARIANT Shape
INVARIANT ViewsAgree
INVARIANT Emit
