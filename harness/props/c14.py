"""C14 -- summary conservation: every element counted once under its final status.

(S)+(P) specs/Summary.tla   design level: specs/Summary_MC.tla   judge: specs/Summary_Trace.tla
plug-in: run/reports_c14.py (what the reporters / the collector say about a finished model; numbers only)

1. TLC explores every small abstract model-after-the-run (tree shape x arbitrary final statuses), runs the transcribed
   consumers (SummaryReporterV1 tree walk with its exact key sets, the five line formats, SummaryReporterV2,
   SummaryCollector through ModelVisitor) on it and checks the clauses on what the judged ones print, without exception;
2. a sample of the explored models is rebuilt as real behave models (statuses set through the public API, then read
   back) and given to the real reporters / collector;
3. real runs of the run cluster (plan of run/stage.py: --stop, aborts, hook errors, de-selection, dry-run, outlines,
   rules) with --summary: the summary behave printed + fresh reporters per format + the collector on the model after
   the run.
TLC (Summary_Trace) computes the census from the recorded final statuses and judges every row of 2 and 3.
Judged: the live summary, SummaryReporter (= V1) in every format, the collector.  SummaryReporterV2 is a class nothing
instantiates: it is recorded and compared with its transcription (informational), never a violation."""
import json
import os
import random

from run import gen as G, stage, drive
from run.reports_c14 import PROBE
from vlib import trace

# Scenario Outlines without a single example row (a heading-only Examples table; no Examples section at all).  The shared
# renderer cannot express them: for programs marked prog["zero_row_outlines"] they are appended to the text of the last
# feature (after every element that has an id, so no line of the program moves).  They have no element id and contribute
# no scenario and no step to the census.
ZERO_ROW_OUTLINES = ("\n  Scenario Outline: Z1\n    Given <c1>\n\n    Examples: none yet\n      | c1 |\n"
                     "\n  Scenario Outline: Z2\n    Given own 1\n")
_Rendered = drive.Rendered


def _rendered(prog, flat):
    R = _Rendered(prog, flat)
    if prog.get("zero_row_outlines"):
        fn, text = R.files[-1]
        R.files[-1] = (fn, text + ZERO_ROW_OUTLINES)
    return R


drive.Rendered = _rendered      # run_case() runs in forked workers of this process: they render through this wrapper

WORKERS = int(os.environ.get("VERIF_WORKERS") or 16)
PROCS = int(os.environ.get("VERIF_PROCS") or 14)
FULL_DETAIL_PER_SIG = 3


# ----------------------------------------------------------------------------- real runs
def anchor_programs():
    """hand-picked programs that guarantee the run classes named in the statement, whatever the random plan contains"""
    sc, ol, ru, ft = G.scenario, G.outline, G.rule, G.feature
    two = [ft([sc(["pass", "fail"]), ru([sc(["error"]), ol([([], [["pass"], ["undefined"]])])], bg=["pass"])], bg=["pass"]),
           ft([sc(["pass"], ["t1"]), ol([(["t2"], [["pass", "pass"], ["fail", "pass"]])])])]
    out = []
    out.append(({"features": two, "family": "anchor"}, [G.cfg(), G.cfg(stop=True), G.cfg(dry=True), G.cfg(expr="wip"), G.cfg(expr="t1")],
                [[0, 0], [1, 0], [2, 0], [3, 0], [5, 0], [9, 0]]))
    out.append(({"features": [ft([sc(["pass"]), sc(["kbd"]), sc(["pass"])]), ft([sc(["pass"])]), ft([ol([([], [["pass"], ["pass"]])])])],
                 "family": "anchor"}, [G.cfg(), G.cfg(cont=True)], [[0, 0], [4, 0]]))
    out.append(({"features": [ft([sc(["pending"], ["wip"]), sc(["pending"]), sc(["pass", "skip", "pass"]), sc(["undefined", "pass"])]),
                              ft([ru([sc(["pass"])], ["t1"]), ru([sc(["fail"]), sc(["pass"])], bg=["error"])])], "family": "anchor"},
                [G.cfg(), G.cfg(dry=True), G.cfg(stop=True), G.cfg(expr="not_t1")], [[0, 0], [6, 0], [7, 8]]))
    # outlines that never run: a feature / rule after a --stop or an abort, or behind a failing before_feature / before_rule
    # hook -- their rows are built by nobody during the run, the live summary still has to count them (untested)
    never = {"features": [ft([sc(["pass"]), sc(["fail"])]),
                          ft([ol([([], [["pass"], ["pass"]])]), ru([ol([(["t1"], [["pass", "pass"]]), ([], [["fail", "pass"]])])], bg=["pass"])]),
                          ft([ru([sc(["pass"]), ol([([], [["pass"]])])])], bg=["pass"])], "family": "anchor"}
    out.append((never, [G.cfg(stop=True), G.cfg()], [[0, 0]] + [[k, 0] for k in range(1, 19)]))
    out.append(({"features": [ft([sc(["pass"]), sc(["kbd"]), ol([([], [["pass"], ["fail"]])])]), ft([ol([([], [["pass", "pass"], ["pass", "pass"]])])])],
                 "family": "anchor"}, [G.cfg(), G.cfg(stop=True)], [[0, 0], [1, 0], [2, 0]]))
    # several failed and several errored scenarios (and outline rows) that share keyword and title
    same = {"features": [ft([sc(["fail"]), sc(["pass", "fail"]), sc(["error"]), sc(["undefined"]), sc(["pass"]),
                             ol([([], [["fail"], ["fail"], ["error"]])]), ol([([], [["fail"], ["error"]])])]),
                         ft([sc(["fail"]), ru([sc(["fail"]), sc(["error"]), sc(["pending"])])])], "family": "anchor", "dupnames": True}
    out.append((same, [G.cfg(), G.cfg(cont=True), G.cfg(show_skipped=False)], [[0, 0], [3, 0], [4, 0], [9, 0], [15, 0]]))
    # outlines with one more Examples table that has a heading row only (no rows): the rows that ran must be the rows counted
    hdr = {"features": [ft([ol([([], [["pass"], ["fail"]])]), sc(["pass"]), ol([(["t1"], [["error", "pass"]]), ([], [["pass", "pass"], ["undefined", "pass"]])])]),
                        ft([ru([ol([([], [["fail"], ["pass"]])])], bg=["pass"])])], "family": "anchor", "hdronly": True}
    out.append((hdr, [G.cfg(), G.cfg(stop=True), G.cfg(cont=True), G.cfg(expr="not_t1")], [[0, 0], [4, 0], [11, 0]]))
    out.append((dict(hdr, dupnames=True), [G.cfg()], [[0, 0], [6, 0]]))
    return out


def make_jobs(chk):
    rnd = random.Random(chk.seed)
    pl = stage.plan(chk.tier, chk.seed)
    jobs = []
    for tid, (p, cfgs, faults) in enumerate(pl):
        for ci, c in enumerate(cfgs):
            for fi, f in enumerate(faults):
                jobs.append((tid + 1, ci + 1, fi + 1, p, c, f))
    want = 700 if chk.quick() else 20000
    total = len(jobs)
    if len(jobs) > want:
        # thin the plan (seeded); 30 % of the runs without a hook fault so that complete green / red runs stay frequent
        plain = [i for i, j in enumerate(jobs) if not any(j[5])]
        faulty = [i for i, j in enumerate(jobs) if any(j[5])]
        n_plain = min(len(plain), (want * 3) // 10)
        pick = rnd.sample(plain, n_plain) + rnd.sample(faulty, min(len(faulty), want - n_plain))
        jobs = [jobs[i] for i in sorted(pick)]
    for k, (p, cfgs, faults) in enumerate(anchor_programs()):
        for ci, c in enumerate(cfgs):
            for fi, f in enumerate(faults):
                jobs.append((900000 + k, ci + 1, fi + 1, p, c, f))
    # a KeyboardInterrupt raised by a hook (run_hook catches Exception only) leaves feature.run() and is handled by
    # run_model itself: the interrupted feature and all later ones still have to reach the reporters.  Every hook
    # position of the multi-feature anchor programs, and every 6th sampled run with a hook fault.
    kbd = set()
    for k, (p, cfgs, faults) in enumerate(anchor_programs()):
        if len(p["features"]) < 2 or p.get("hdronly"):
            continue
        nh = G.count_hooks_upper(G.flatten(p))
        for pos in range(1, nh + 1):
            kbd.add(len(jobs))
            jobs.append((910000 + k, 1, pos, p, G.cfg(), [pos, 0]))
    out = []
    nf = 0
    for n, (tid, ci, fi, p, c, f) in enumerate(jobs):
        kind = "assert" if (tid + ci + fi) % 3 == 0 else "exc"
        if any(f):
            nf += 1
            if nf % 6 == 0 or n in kbd:
                kind = "kbd"
        if n % 2:
            # every other run: all scenarios share one keyword + title (model elements compare equal by keyword and name);
            # the listed scenarios are mapped back by file:line, never by name
            p = dict(p, dupnames=True)
        if n % 4 == 1:
            p = dict(p, zero_row_outlines=True)
        if n % 3 == 0:
            p = dict(p, hdronly=True)       # every outline gets one more Examples table without rows
        job = {"key": [tid, ci, fi], "prog": p, "flat": G.flatten(p), "cfg": c, "fault": f,
               "fault_kind": kind, "reports": True, "plugins": ["c14"]}
        if n % 5:
            # 4 of 5 runs: the summary reporter alone, as in a plain `behave` run.  The JUnit reporter (called before the
            # summary reporter) and the rerun formatter walk every scenario and thereby build the rows of outlines that
            # never ran -- with them switched on the live summary cannot show a reporter that forgets such rows.
            job["formats"] = [PROBE]
            job["extra_args"] = ["--no-junit"]
        else:
            job["formats"] = ["json", "plain", "progress2", "progress3", "rerun", PROBE]
        out.append(job)
    return out, total


def slim_prog(flat):
    return [{"kind": e["kind"], "children": e["children"]} for e in flat["elems"]]


def run_row(rid, job, row):
    """driver row -> row of Summary_Trace"""
    end = row["end"]
    rep = row["reports"]["c14"]
    if "projection_error" in rep:
        raise RuntimeError("reports_c14.project failed on %s:\n%s" % (job["key"], rep["projection_error"]))
    if "missing" in end["status"]:
        raise RuntimeError("driver lost a model element of %s: %s" % (job["key"], end["status"]))
    # the scenario objects that actually ran (RunProbe of the plug-in), with the statuses they finally have: the judge
    # takes them in preference to what a walk of the model shows after the run (an outline may hand out new row objects)
    ran = rep.get("ran") or {"status": [""] * len(end["status"]), "steps": [[] for _ in end["status"]]}
    return {"id": rid, "prog": slim_prog(job["flat"]),
            "end": {"status": end["status"], "step_status": end["step_status"], "ran_status": ran["status"],
                    "ran_step_status": ran["steps"], "live_ok": bool(end["ran"] and not end["escaped"])},
            "c14": {"reps": rep["reps"], "col": rep["col"]}}


# ----------------------------------------------------------------------------- explored models on real model objects
class _Env(object):
    pass


def case_to_prog(case):
    """(kind, children) table of an emitted model -> nested program of run/gen.py + [shape id per flat id]"""
    kind, children, steps = case["kind"], case["children"], case["steps"]
    order = []

    def build(e):
        order.append(e)
        k = kind[e - 1]
        if k == "scenario":
            return G.scenario(["pass"] * len(steps[e - 1]))
        if k == "outline":
            rows = []
            for c in children[e - 1]:
                order.append(c)
                rows.append(["pass"] * len(steps[c - 1]))
            return G.outline([([], rows)])
        items = [build(c) for c in children[e - 1]]
        return G.rule(items) if k == "rule" else G.feature(items)
    feats = [build(e) for e in range(1, len(kind) + 1) if kind[e - 1] == "feature"]
    return {"features": feats, "family": "model"}, order


_CONFIG = []


def observe_model(case):
    """build the real model of an emitted case, set the statuses through the public API, read the final statuses back
    and let the plug-in observe the reporters -> (flat, end, c14 observation)"""
    from behave.configuration import Configuration
    from behave.model import Scenario, ScenarioOutline
    from behave.model_core import Status
    from behave.parser import parse_feature
    from run import reports_c14
    prog, order = case_to_prog(case)
    if case.get("zero_row_outlines"):
        prog["zero_row_outlines"] = True
    flat = G.flatten(prog)
    R = drive.Rendered(prog, flat)
    if not _CONFIG:
        _CONFIG.append(Configuration(command_args=[], load_config=False))
    feats = [parse_feature(text, filename=fn) for fn, text in R.files]
    fidx = {fn: i for i, (fn, _t) in enumerate(R.files)}

    def elid(x):
        return R.by_loc.get((fidx.get(os.path.basename(x.filename), -1), x.line), 0)

    n = len(flat["elems"])
    objs = {}

    def collect(x):
        i = elid(x)
        if i:
            objs[i] = x
        if isinstance(x, ScenarioOutline):
            for s in x.scenarios:
                collect(s)
        elif not isinstance(x, Scenario):
            for r in x.run_items:
                collect(r)
    for f in feats:
        collect(f)
    if sorted(objs) != list(range(1, n + 1)):
        raise RuntimeError("model case not rendered faithfully: %s" % json.dumps(case))
    for i in range(1, n + 1):
        sid = order[i - 1]
        x = objs[i]
        if isinstance(x, ScenarioOutline):
            continue
        if isinstance(x, Scenario):
            want = case["steps"][sid - 1]
            have = list(x.all_steps)
            assert len(have) == len(want)
            for st, w in zip(have, want):
                st.status = Status.from_name(w)
        x.set_status(case["status"][sid - 1])
    status, step_status = [], []
    for i in range(1, n + 1):
        x = objs[i]
        status.append(x.status.name)
        step_status.append([st.status.name for st in x.all_steps] if isinstance(x, Scenario) and not isinstance(x, ScenarioOutline) else [])
    env = _Env()
    env.outdir, env.real_out, env.real_err = None, "", ""
    env.rendered, env.feats, env.elid, env.config = R, feats, elid, _CONFIG[0]
    env.case, env.flat = None, flat
    rep = reports_c14.project(env)
    wanted = [case["status"][order[i] - 1] for i in range(n)]
    pinned = all(a == b or flat["elems"][i]["kind"] == "outline" for i, (a, b) in enumerate(zip(status, wanted)))
    return flat, {"status": status, "step_status": step_status, "ran_status": [""] * len(status), "ran_step_status": [[] for _ in status],
                  "live_ok": False}, rep, pinned


# ----------------------------------------------------------------------------- verdicts -> violations
def sig_of(v):
    return "%s|impl=%s|fmt=%s|kind=%s" % (v[2], v[3], v[4], v[5])


def describe(row, v):
    """the concrete numbers behind a verdict"""
    reps = [o for o in row["c14"]["reps"] if o["impl"] == v[3] and o["fmt"] == v[4]]
    kinds = ["feature", "rule", "scenario", "step"]
    out = {"final_status": row["end"]["status"], "final_step_status": [s for s in row["end"]["step_status"] if s]}
    if reps:
        o = reps[0]
        out["crashed"] = o["crashed"]
        if v[5] in kinds:
            out["printed_%s_line" % v[5]] = o["lines"][kinds.index(v[5])]
        if v[2].startswith("C14.listed"):
            out["listed_failing"], out["listed_errored"] = o["failing"], o["errored"]
    if v[3] == "collector":
        c = row["c14"]["col"]
        out["collector"] = {"failing": c["failing"], "errored": c["errored"], "totals": c["totals"], "crashed": c["crashed"]}
    return out


def report(chk, verdicts, rows, meta):
    seen = {}
    byid = {r["id"]: r for r in rows}
    for rid, vs in sorted(verdicts.items()):
        for v in vs:
            if v[2] == "DIVERGE":
                continue
            sig = sig_of(v)
            seen[sig] = seen.get(sig, 0) + 1
            base = v[2].split("/")[0]
            if seen[sig] <= FULL_DETAIL_PER_SIG:
                m = meta[rid]
                detail = "%s observed %s" % (json.dumps(m["input"], sort_keys=True), json.dumps(describe(byid[rid], v), sort_keys=True))
                chk.violation(base, sig, detail, m["payload"])
            else:
                chk.violation(base, sig, "", None)
    return seen


# ----------------------------------------------------------------------------- the check
def run(chk):
    quick = chk.quick()
    rnd = random.Random(chk.seed)
    # 1. design level
    cfg = "Summary_MC_quick.cfg" if quick else "Summary_MC_thorough.cfg"
    r = chk.tlc("Summary_MC", cfg, timeout=1200 if quick else 2400, workers=WORKERS)
    for name in r.violated:
        chk.violation("C14.design." + name, "design:%s" % name, "TLC: invariant %s violated in Summary_MC (%s)" % (name, cfg))
    cases = sorted((json.loads(t[1]) for t in r.by_tag("CASE")), key=lambda c: json.dumps(c, sort_keys=True))
    # models with a zero-row outline *element* cannot be rendered by the shared renderer; instead every other rebuilt model
    # gets the zero-row outlines appended as text
    cases = [c for c in cases if not any(k == "outline" and not ch for k, ch in zip(c["kind"], c["children"]))]
    chk.extra["design_models_explored"] = r.distinct
    want = 250 if quick else 4000
    if len(cases) > want:
        cases = [cases[i] for i in sorted(rnd.sample(range(len(cases)), want))]
    rows, meta = [], {}
    rid = 0
    unpinned = 0
    for k, c in enumerate(cases):
        if k % 2:
            c["zero_row_outlines"] = True
        flat, end, rep, pinned = observe_model(c)
        unpinned += 0 if pinned else 1
        rid += 1
        rows.append({"id": rid, "prog": slim_prog(flat), "end": end, "c14": {"reps": rep["reps"], "col": rep["col"]}})
        meta[rid] = {"input": {"model": {"kind": c["kind"], "children": c["children"], "status": c["status"], "steps": c["steps"]}},
                     "payload": {"kind": "model", "case": c}}
    n_models = len(rows)
    # 2. real runs
    jobs, total = make_jobs(chk)
    out = stage.drive_all(jobs, procs=PROCS)
    escaped = 0
    cover = {k: {} for k in ("feature", "rule", "scenario", "step")}
    classes = {"stop": 0, "dry": 0, "cont": 0, "hook_fault": 0, "deselecting_expr": 0, "escaped": 0, "untested_remainder": 0,
               "with_rule": 0, "with_outline": 0, "all_skipped": 0, "summary_reporter_alone": 0,
               "live_judged_with_never_run_outline": 0, "same_title_scenarios": 0, "kbd_in_hook": 0, "kbd_in_hook_live_judged": 0,
               "two_failed_or_two_errored_same_title_live_judged": 0}
    for job, row in zip(jobs, out):
        if "driver_error" in row:
            raise RuntimeError("driver failed on %s:\n%s" % (row["key"], row["driver_error"]))
        rid += 1
        jr = run_row(rid, job, row)
        rows.append(jr)
        meta[rid] = {"input": {"prog": job["prog"], "cfg": job["cfg"], "fault": job["fault"]},
                     "payload": {"kind": "run", "prog": job["prog"], "cfg": job["cfg"], "fault": job["fault"], "fault_kind": job["fault_kind"],
                                 "alone": "extra_args" in job}}
        kinds = [e["kind"] for e in job["flat"]["elems"]]
        for k, s in zip(kinds, jr["end"]["status"]):
            if k in cover:
                cover[k][s] = cover[k].get(s, 0) + 1
        for sts in jr["end"]["step_status"]:
            for s in sts:
                cover["step"][s] = cover["step"].get(s, 0) + 1
        c = job["cfg"]
        classes["stop"] += c["stop"]
        classes["dry"] += c["dry"]
        classes["cont"] += c["cont"]
        classes["hook_fault"] += any(job["fault"])
        classes["deselecting_expr"] += c["expr"] != "true"
        classes["escaped"] += not jr["end"]["live_ok"]
        classes["untested_remainder"] += "untested" in [s for k, s in zip(kinds, jr["end"]["status"]) if k == "scenario"] and not c["dry"]
        classes["with_rule"] += "rule" in kinds
        classes["with_outline"] += "outline" in kinds
        classes["hdronly_with_outline_rows_that_ran"] = classes.get("hdronly_with_outline_rows_that_ran", 0) + bool(
            job["prog"].get("hdronly") and any(
                e["kind"] == "scenario" and job["flat"]["elems"][e["parent"] - 1]["kind"] == "outline" and jr["end"]["ran_status"][e["id"] - 1]
                not in ("", "untested", "skipped") for e in job["flat"]["elems"]))
        classes["runs_where_probe_saw_scenarios"] = classes.get("runs_where_probe_saw_scenarios", 0) + any(jr["end"]["ran_status"])
        classes["zero_row_outlines"] = classes.get("zero_row_outlines", 0) + bool(job["prog"].get("zero_row_outlines"))
        classes["summary_reporter_alone"] += "extra_args" in job
        classes["same_title_scenarios"] += bool(job["prog"].get("dupnames"))
        classes["kbd_in_hook"] += job["fault_kind"] == "kbd" and any(job["fault"])
        classes["kbd_in_hook_live_judged"] += job["fault_kind"] == "kbd" and any(job["fault"]) and jr["end"]["live_ok"]
        plain_sc = [jr["end"]["status"][e["id"] - 1] for e in job["flat"]["elems"]
                    if e["kind"] == "scenario" and job["flat"]["elems"][e["parent"] - 1]["kind"] != "outline"]
        classes["two_failed_or_two_errored_same_title_live_judged"] += bool(
            job["prog"].get("dupnames") and jr["end"]["live_ok"] and
            (plain_sc.count("failed") > 1 or sum(1 for x in plain_sc if x in ("error", "hook_error")) > 1))
        elems = job["flat"]["elems"]
        classes["live_judged_with_never_run_outline"] += bool(
            jr["end"]["live_ok"] and not c["dry"] and "extra_args" in job and
            any(e["kind"] == "outline" and e["children"] and all(jr["end"]["status"][x - 1] == "untested" for x in e["children"]) for e in elems))
        classes["all_skipped"] += all(s == "skipped" for k, s in zip(kinds, jr["end"]["status"]) if k == "feature")
    verdicts = trace.judge_rows(chk, "Summary_Trace", rows, chunks=max(1, min(16, WORKERS)), min_chunk=100)
    chk.impl_traces = len(rows)
    chk.evaluations = len(rows) * 7           # judged per row: live + 5 formats of SummaryReporter + collector
    div = {}
    v2_div = 0
    for rid_, vs in verdicts.items():
        for v in vs:
            if v[2] == "DIVERGE":
                if v[3] == "V2":            # unused class: compared with its transcription, informational only
                    v2_div += 1
                    continue
                chk.divergences += 1
                key = "%s/%s" % (v[3], v[4])
                div.setdefault(key, meta[rid_]["input"])
    chk.extra["reporter_v2_observations_differing_from_transcription"] = v2_div
    if v2_div:
        chk.note("INFO SummaryReporterV2 (unused class, not judged): %d observations differ from its transcription in Summary.tla" % v2_div)
    if div:
        chk.extra["divergence_samples"] = {k: div[k] for k in sorted(div)[:5]}
        chk.note("DIVERGENCE spec=Summary: %d reporter observations differ from the prediction of Summary.tla (informational): %s" % (
            chk.divergences, sorted(div)[:8]))
    seen = report(chk, verdicts, rows, meta)
    chk.extra["verdict_signatures"] = seen
    chk.extra["rows_from_explored_models"] = n_models
    chk.extra["explored_models_not_pinned_by_set_status"] = unpinned
    chk.extra["rows_from_real_runs"] = len(jobs)
    chk.extra["real_runs_available_in_plan"] = total
    chk.extra["final_statuses_seen_in_real_runs"] = cover
    chk.extra["run_classes"] = classes
    chk.extra["distinct_nontrivial"] = len({json.dumps(m["input"], sort_keys=True) for m in meta.values()})
    chk.exhaustive = False
    for j in (0, len(jobs) // 2, len(jobs) - 1):
        o = out[j]["reports"]["c14"]["reps"][0]
        chk.sample({"cfg": jobs[j]["cfg"], "fault": jobs[j]["fault"], "feature_text": drive.Rendered(jobs[j]["prog"], jobs[j]["flat"]).files[0][1],
                    "final_status": out[j]["end"]["status"], "live_summary_format": o["fmt"],
                    "live_lines": [[(p["name"], p["n"]) for p in ln["parts"]] for ln in o["lines"]],
                    "live_failing": o["failing"], "live_errored": o["errored"]})
    chk.rule = ("design: every status assignment (per kind: all statuses a run can produce) on %d tree shapes up to 2 features x 4 scenarios x "
                "2 steps (TLC, exhaustive per shape and status domain); binding: a seeded sample of these models rebuilt on real model "
                "objects + a seeded sample of the run-cluster plan (exhaustive family `scen`, random `tree`/`big`, x configurations x hook "
                "fault sets) + anchor programs, each observed through the live summary, a fresh SummaryReporter per format and the collector; "
                "distinct = distinct models / (program, cfg, fault set)") % (6 if quick else 14)
    chk.assumptions = [
        "the final statuses are those of the model objects after the run (read through .status of every element, all_steps of every scenario)",
        "the live summary is judged only when the run came to its end (an escaped exception is C01's business); the fresh SummaryReporter per format and the "
        "collector are judged on every model",
        "SummaryReporterV2 (nothing instantiates it; SummaryReporter = SummaryReporterV1) is not the end-of-run summary of the statement: "
        "observed and compared with its transcription only",
        "summary lines are recognised by one regular expression per documented format; status names and file:line are read, wording is not",
        "duplicates in the failing / errored lists are not judged (the statement speaks of the listed scenarios as a set)",
        "hook_errors / hook_failed counters of SummaryCounts are not part of the statement and not judged",
    ]


def replay(chk, payload):
    rp = payload["replay"]
    if rp["kind"] == "model":
        flat, end, rep, _p = observe_model(rp["case"])
        row = {"id": 1, "prog": slim_prog(flat), "end": end, "c14": {"reps": rep["reps"], "col": rep["col"]}}
        inp = {"model": rp["case"]}
    else:
        flat = G.flatten(rp["prog"])
        job = {"key": [1, 1, 1], "prog": rp["prog"], "flat": flat, "cfg": rp["cfg"], "fault": rp["fault"],
               "fault_kind": rp.get("fault_kind", "exc"), "reports": True, "plugins": ["c14"]}
        if rp.get("alone"):
            job["formats"], job["extra_args"] = [PROBE], ["--no-junit"]
        else:
            job["formats"] = ["json", "plain", "progress2", "progress3", "rerun", PROBE]
        out = drive.run_case(job, reports=True)
        row = run_row(1, job, out)
        inp = {"prog": rp["prog"], "cfg": rp["cfg"], "fault": rp["fault"]}
    verdicts = trace.judge_rows(chk, "Summary_Trace", [row], chunks=1)
    chk.impl_traces = 1
    chk.sample({"replayed": inp, "final_status": row["end"]["status"], "final_step_status": row["end"]["step_status"]})
    report(chk, verdicts, [row], {1: {"input": inp, "payload": rp}})
