INIT Init
NEXT Next
CONSTANTS
  MaxGroups = 3
  MaxAlts = 2
  Names <- NamesTwo
  Sorted = FALSE
  Universe <- Univ
  V2Depth = 2
  V2Operands <- OpsV2
  NB = 64
  Styles <- AllStyles
  EmitMod = 2
  HistLen = 3
INVARIANT ReadBack
INVARIANT V1Algorithm
INVARIANT AutoOnV1
INVARIANT AutoOnMixed
INVARIANT AutoOnV2
INVARIANT AtNeutral
INVARIANT ListIsConjunction
INVARIANT HistoryIndependent
INVARIANT Witness
INVARIANT Emit
