------------------------------ MODULE Run_Trace ------------------------------
(* Judge of the run-cluster properties on rows recorded from the real      *)
(* ModelRunner.  One state per row; every violated clause is printed as    *)
(* <<"VERDICT", row id, clause>> (clause = "Cxx.name" or "Cxx.name/family").*)
EXTENDS Props_Run, Json, IOUtils
Rows == ndJsonDeserialize(IOEnv.TRACE_FILE)
VARIABLE i
Init == i = 1
Next == /\ i <= Len(Rows)
        /\ \A c \in Clauses(Rows[i]) : PrintT(<<"VERDICT", Rows[i].id, c>>)
        /\ i' = i + 1
Spec == Init /\ [][Next]_i
Done == PrintT(<<"DONE", Len(Rows), TLCGet("stats").diameter>>)
=============================================================================
