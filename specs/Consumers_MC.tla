---------------------------- MODULE Consumers_MC ----------------------------
(***************************************************************************)
(* Design-level check of C15: one state per small abstract run.            *)
(*                                                                         *)
(* A run = [dry, ss (show_skipped), feats]; feature = [sel, fbg, pre,      *)
(* rule]; rule = [kind none|rule, sel, rbg, scs]; scenario = [sel, ks]     *)
(* (ks = kinds of its own steps: pass fail undef bad skip; fbg / rbg = 0|1 *)
(* passing background steps in front of them; sel FALSE = not selected by  *)
(* the tag expression -- shown only with show_skipped, hidden otherwise;   *)
(* an unselected feature / rule hides everything below it).                *)
(* Events(run) is the formatter stream the runner produces for it,         *)
(* written after Run.tla (CAnnounce / SAnnounce / SSteps / StStart /       *)
(* StResult / CPop / FeatureLoop / AfterAll): uri; feature + background if *)
(* shown; per shown scenario `scenario step*`; in a normal run match +     *)
(* result for every step up to the first one that does not pass (undefined *)
(* there: match(NoMatch) + result), afterwards nothing (later undefined    *)
(* steps end `undefined`, defined ones `skipped`); in a dry run match +    *)
(* result(untested) for every DEFINED step and NO callback for undefined   *)
(* ones -- as the code does; rule + background (own or inherited) +        *)
(* rule_finished for a shown rule; eof; close.  The real runs of           *)
(* harness/props/c15.py replay a sample of the emitted runs and compare    *)
(* the recorded stream with Events (conformance of this generator).        *)
(* The automata of Consumers.tla consume the stream; INVARIANTs:           *)
(*   ClausesHold    every clause of (P) holds, except the one named family *)
(*                  of the code as it is (KnownFamilies: the dry-run known *)
(*                  finding, DESIGN section 8 #4), so that TLC goes on     *)
(*   KFNarrow       the family fires only on its narrow input condition    *)
(*   RepairedHolds  with the drafted repair of #4 nothing fires at all     *)
(*   Emit           a deterministic part of the runs, with the predicted   *)
(*                  stream and reports                                      *)
(* start -> one state per shape (spreads the work over the workers) ->     *)
(* one state per run.                                                      *)
(***************************************************************************)
EXTENDS Consumers, Json
CONSTANTS MaxOwn,      \* own steps per scenario
          MaxScen,     \* scenarios of the main feature
          OtherModes,  \* subset of {"none", "before", "after"}: a second (fixed) feature before / after the main one
          EmitMod

Stoppers == {"fail", "undef", "bad", "skip"}
Passes(k) == [i \in 1..k |-> "pass"]
RECURSIVE SeqsOver(_,_)
SeqsOver(S, n) == IF n = 0 THEN {<<>>} ELSE {<<x>> \o t : x \in S, t \in SeqsOver(S, n - 1)}
\* own steps of a selected scenario in a normal run: pass^k . o . {pass, undef}^*   (run/gen.py outcome_sequences)
NormSeqs(n) == {Passes(n)} \cup UNION {{Passes(k) \o <<o>> \o t : o \in Stoppers, t \in SeqsOver({"pass", "undef"}, n - k - 1)} : k \in 0..(n - 1)}
\* in a dry run nothing executes: only defined / undefined / converter error can be told apart
DrySeqs(n) == SeqsOver({"pass", "undef", "bad"}, n)
SelScens(dry) == {[sel |-> TRUE, ks |-> ks] : ks \in UNION {IF dry THEN DrySeqs(n) ELSE NormSeqs(n) : n \in 1..MaxOwn}}
UnselScens == {[sel |-> FALSE, ks |-> Passes(n)] : n \in 1..MaxOwn}
NoRule == [kind |-> "none", sel |-> TRUE, rbg |-> 0, scs |-> <<>>]
OtherFeature == [sel |-> TRUE, fbg |-> 1, pre |-> << [sel |-> TRUE, ks |-> <<"pass", "fail">>] >>, rule |-> NoRule]

RuleShapes == {[kind |-> "none", sel |-> TRUE, rbg |-> 0, n |-> 0]}
              \cup {[kind |-> "rule", sel |-> s, rbg |-> b, n |-> n] : s \in BOOLEAN, b \in 0..1, n \in 1..2}
Shapes == {[dry |-> d, ss |-> ss, fsel |-> fs, fbg |-> fb, npre |-> np, rule |-> r, other |-> o] :
              d \in BOOLEAN, ss \in BOOLEAN, fs \in BOOLEAN, fb \in 0..1, np \in 0..2, r \in RuleShapes,
              o \in OtherModes}
ShapeOK(sh) == sh.npre + sh.rule.n \in 1..MaxScen
RunsOf(sh) ==
   LET pool(selected) == IF selected THEN SelScens(sh.dry) \cup UnselScens ELSE UnselScens
       main(pre, rs) == [sel |-> sh.fsel, fbg |-> sh.fbg, pre |-> pre,
                         rule |-> IF sh.rule.kind = "none" THEN NoRule ELSE [kind |-> "rule", sel |-> sh.rule.sel, rbg |-> sh.rule.rbg, scs |-> rs]]
       feats(f) == CASE sh.other = "none" -> <<f>> [] sh.other = "before" -> <<OtherFeature, f>> [] OTHER -> <<f, OtherFeature>>
   IN {[dry |-> sh.dry, ss |-> sh.ss, feats |-> feats(main(pre, rs))] :
          pre \in SeqsOver(pool(sh.fsel), sh.npre), rs \in SeqsOver(pool(sh.fsel /\ sh.rule.sel), sh.rule.n)}

\* ---------------------------------------------------------------- status roll-up of the code (Run.tla ScenFrom / ContFrom)
IsError(s) == s \in {"error", "hook_error", "cleanup_error", "undefined", "pending"}
IsUntested(s) == s \in {"untested", "untested_undefined", "untested_pending"}
RECURSIVE ScenFrom(_,_)
ScenFrom(ss, k) == IF k > Len(ss) THEN "passed"
   ELSE IF IsError(ss[k]) THEN "error" ELSE IF ss[k] = "failed" THEN "failed"
   ELSE IF IsUntested(ss[k]) THEN "untested"
   ELSE IF ss[k] # "passed" THEN ss[k] ELSE ScenFrom(ss, k + 1)
RECURSIVE ContFrom(_,_,_,_)
ContFrom(cs, k, skipped, passedCount) ==
   IF k > Len(cs) THEN (IF skipped THEN "skipped" ELSE "passed")
   ELSE LET s == cs[k] IN
        IF IsError(s) THEN "error" ELSE IF s = "failed" THEN "failed"
        ELSE IF s = "untested" THEN (IF passedCount > 0 THEN "failed" ELSE "untested")
        ELSE ContFrom(cs, k + 1, skipped /\ s = "skipped", IF s = "passed" THEN passedCount + 1 ELSE passedCount)

\* ---------------------------------------------------------------- the stream the runner emits (after Run.tla)
\* gx.dryundef = the drafted repair of model.py: a dry run reports its undefined steps with match(NoMatch) + result
RECURSIVE StepLoop(_,_,_,_,_,_,_,_)
StepLoop(el, ks, k, rs, failed, dry, gx, acc) ==
   IF k > Len(ks) THEN acc
   ELSE LET kd == ks[k]
            M(u, b) == FE("match", el, 0, "", u, b, 0)
            R(s) == FE("result", el, k, s, FALSE, FALSE, 0)
            put(s, evs) == [ev |-> acc.ev \o evs, sst |-> [acc.sst EXCEPT ![k] = s]]
        IN
        IF rs THEN          \* Step.run: find_match, formatter.match, body, formatter.result
           CASE kd = "pass"  -> StepLoop(el, ks, k + 1, TRUE, failed, dry, gx, put("passed", <<M(FALSE, FALSE), R("passed")>>))
             [] kd = "fail"  -> StepLoop(el, ks, k + 1, FALSE, TRUE, dry, gx, put("failed", <<M(FALSE, FALSE), R("failed")>>))
             [] kd = "undef" -> StepLoop(el, ks, k + 1, FALSE, TRUE, dry, gx, put("undefined", <<M(TRUE, FALSE), R("undefined")>>))
             [] kd = "bad"   -> StepLoop(el, ks, k + 1, FALSE, TRUE, dry, gx, put("error", <<M(FALSE, TRUE), R("error")>>))
             [] kd = "skip"  -> StepLoop(el, ks, k + 1, FALSE, failed, dry, gx, put("skipped", <<M(FALSE, FALSE), R("skipped")>>))
        ELSE IF failed \/ dry THEN      \* Scenario.run: `elif failed or dry_run_scenario`
           IF kd = "undef" THEN StepLoop(el, ks, k + 1, rs, failed, dry, gx,
                                         put("undefined", IF dry /\ gx.dryundef THEN <<M(TRUE, FALSE), R("undefined")>> ELSE <<>>))
           ELSE IF dry THEN StepLoop(el, ks, k + 1, rs, failed, dry, gx, put("untested", <<M(FALSE, kd = "bad"), R("untested")>>))
           ELSE StepLoop(el, ks, k + 1, rs, failed, dry, gx, put("skipped", <<>>))
        ELSE StepLoop(el, ks, k + 1, rs, failed, dry, gx, put("skipped", <<>>))

\* -> [ev, sst, st] of scenario `el` with all steps `ks`
ScenRun(el, ks, sel, run, gx) ==
   LET n == Len(ks)
       ann == IF sel \/ run.ss THEN <<FE("scenario", el, 0, "", FALSE, FALSE, 0)>> \o [k \in 1..n |-> FE("step", el, k, "", FALSE, FALSE, 0)] ELSE <<>>
       body == IF sel THEN StepLoop(el, ks, 1, ~run.dry, FALSE, run.dry, gx, [ev |-> <<>>, sst |-> [k \in 1..n |-> "untested"]])
               ELSE [ev |-> <<>>, sst |-> [k \in 1..n |-> "skipped"]]
   IN [ev |-> ann \o body.ev, sst |-> body.sst, st |-> ScenFrom(body.sst, 1)]

NoneEl(kind) == [kind |-> kind, nsteps |-> 0, defd |-> <<>>, st |-> "", sst |-> <<>>]
\* -> [els (element table of this feature, ids base+1 ..), ev]
BuildFeature(f, base, run, gx) ==
   LET fel == base + 1
       np == Len(f.pre)
       hasRule == f.rule.kind = "rule"
       rel == fel + np + 1
       nr == Len(f.rule.scs)
       rsel == f.sel /\ f.rule.sel
       bgk(m) == [i \in 1..m |-> "pass"]
       preRun == [j \in 1..np |-> ScenRun(fel + j, bgk(f.fbg) \o f.pre[j].ks, f.sel /\ f.pre[j].sel, run, gx)]
       ruleRun == [j \in 1..nr |-> ScenRun(rel + j, bgk(f.fbg) \o bgk(f.rule.rbg) \o f.rule.scs[j].ks, rsel /\ f.rule.scs[j].sel, run, gx)]
       scenEl(r, ks) == [kind |-> "scenario", nsteps |-> Len(r.sst), defd |-> [k \in DOMAIN ks |-> ks[k] # "undef"], st |-> r.st, sst |-> r.sst]
       ruleSt == ContFrom([j \in 1..nr |-> ruleRun[j].st], 1, TRUE, 0)
       featSt == ContFrom([j \in 1..np |-> preRun[j].st] \o (IF hasRule THEN <<ruleSt>> ELSE <<>>), 1, TRUE, 0)
       fshown == f.sel \/ run.ss
       rshown == rsel \/ run.ss
       bgEv(m) == <<FE("background", 0, 0, "", FALSE, FALSE, m)>>
       none(nm, el) == FE(nm, el, 0, "", FALSE, FALSE, 0)
   IN [els |-> <<[NoneEl("feature") EXCEPT !.st = featSt]>>
               \o [j \in 1..np |-> scenEl(preRun[j], bgk(f.fbg) \o f.pre[j].ks)]
               \o (IF hasRule THEN <<[NoneEl("rule") EXCEPT !.st = ruleSt]>>
                                   \o [j \in 1..nr |-> scenEl(ruleRun[j], bgk(f.fbg) \o bgk(f.rule.rbg) \o f.rule.scs[j].ks)]
                   ELSE <<>>),
       ev |-> <<none("uri", 0)>>
              \o (IF fshown THEN <<none("feature", fel)>> \o (IF f.fbg > 0 THEN bgEv(f.fbg) ELSE <<>>) ELSE <<>>)
              \o Concat([j \in 1..np |-> preRun[j].ev])
              \o (IF hasRule
                  THEN (IF rshown THEN <<none("rule", rel)>> \o (IF f.rule.rbg > 0 \/ f.fbg > 0 THEN bgEv(f.rule.rbg) ELSE <<>>) ELSE <<>>)
                       \o Concat([j \in 1..nr |-> ruleRun[j].ev])
                       \o (IF rshown THEN <<none("rule_finished", 0)>> ELSE <<>>)
                  ELSE <<>>)
              \o (IF fshown THEN <<none("eof", 0)>> ELSE <<>>)]
RECURSIVE BuildFeats(_,_,_,_,_)
BuildFeats(run, k, gx, els, ev) ==
   IF k > Len(run.feats) THEN [els |-> els, ev |-> Append(ev, FE("close", 0, 0, "", FALSE, FALSE, 0))]
   ELSE LET b == BuildFeature(run.feats[k], Len(els), run, gx) IN BuildFeats(run, k + 1, gx, els \o b.els, ev \o b.ev)
Build(run, gx) ==
   LET b == BuildFeats(run, 1, gx, <<>>, <<>>) IN
   [ev |-> b.ev, kinds |-> [el \in DOMAIN b.els |-> b.els[el].kind],
    X |-> [dry |-> run.dry, nsteps |-> [el \in DOMAIN b.els |-> b.els[el].nsteps], defd |-> [el \in DOMAIN b.els |-> b.els[el].defd],
           st |-> [el \in DOMAIN b.els |-> b.els[el].st], sst |-> [el \in DOMAIN b.els |-> b.els[el].sst]]]

\* ---------------------------------------------------------------- (S) composed with (P)
Crashes(o) ==
   LET one(nm, c) == IF c = "" THEN {} ELSE {<<"C15.no_crash", nm \o ":" \o c>>} IN
   one("json", o.json.crash) \cup one("plain", o.plain.crash) \cup one("progress23", o.prog.crash) \cup one("progress", o.sprog.crash)
Outputs(b) == [json |-> JsonRun(b.ev, b.X), plain |-> PlainRun(b.ev, b.X), prog |-> ProgRun(b.ev), sprog |-> SProgRun(b.ev, b.X)]
\* a crashed formatter ends the run: the other clauses are not evaluated then (as on the rows of real runs)
ClausesOf(b) ==
   LET o == Outputs(b)
       a == Analyse(b.ev)
       cr == Crashes(o)
   IN IF cr # {} THEN cr
      ELSE Grammar(b.ev, b.X, a)
           \cup (IF ToksValid(o.json.toks) THEN {} ELSE {<<"C15.json_valid", "text">>})
           \cup JsonMirror(o.json.out, b.X, a)
           \cup ReadBackClause(ReadBack(o.json.out), o.json.out)
           \cup PlainOnce(o.plain.lines, b.X, a)
           \cup ProgressOnce(o.prog.p2, o.prog.p3, TRUE, TRUE, b.X, a)
           \cup Agree(o.json.out, TRUE, o.plain.lines, TRUE, o.prog.p3, TRUE, b.X, a)

FixedGen == [dryundef |-> TRUE]

VARIABLES ph, sh, run, d
vars == <<ph, sh, run, d>>
NoRun == [dry |-> FALSE, ss |-> FALSE, feats |-> <<>>]
Init == ph = "start" /\ sh = 0 /\ run = NoRun /\ d = [v |-> {}, vr |-> {}]
Next == \/ ph = "start" /\ ph' = "shape" /\ sh' \in {x \in Shapes : ShapeOK(x)} /\ UNCHANGED <<run, d>>
        \/ ph = "shape" /\ ph' = "case" /\ sh' = sh /\ run' \in RunsOf(sh)
           /\ d' = [v |-> ClausesOf(Build(run', CodeGen)), vr |-> ClausesOf(Build(run', FixedGen))]
Spec == Init /\ [][Next]_vars

Names(vs) == {v[1] : v \in vs}
ClausesHold == ph = "case" => Names(d.v) \subseteq KnownFamilies
RepairedHolds == ph = "case" => d.vr = {}

\* ---------------------------------------------------------------- the family is as narrow as the defect (condition on the INPUT)
AllScens(f) == [j \in DOMAIN f.pre |-> [sel |-> f.sel /\ f.pre[j].sel, ks |-> f.pre[j].ks]]
               \o [j \in DOMAIN f.rule.scs |-> [sel |-> f.sel /\ f.rule.sel /\ f.rule.scs[j].sel, ks |-> f.rule.scs[j].ks]]
\* #4: a dry run with a selected scenario in which an undefined step is followed by a defined one -- and the finding is
\* real: whenever that input condition holds, the grammar clause fires
DryInput == run.dry /\ \E k \in DOMAIN run.feats : \E j \in DOMAIN AllScens(run.feats[k]) :
               LET sc == AllScens(run.feats[k])[j] IN sc.sel /\ \E p, q \in DOMAIN sc.ks : p < q /\ sc.ks[p] = "undef" /\ sc.ks[q] # "undef"
KFNarrow == (ph = "case" /\ ~CodeGen.dryundef) => (Names(d.v) # {} <=> DryInput) /\ (DryInput => "C15.grammar/" \o KF_DRY \in Names(d.v))

\* ---------------------------------------------------------------- emission
KindIx(k) == CASE k = "pass" -> 1 [] k = "fail" -> 2 [] k = "undef" -> 3 [] k = "bad" -> 4 [] OTHER -> 5
RECURSIVE Code(_,_)
Code(scs, j) == IF j > Len(scs) THEN 0
                ELSE (IF scs[j].sel THEN 7 ELSE 3) * j + Fold(LAMBDA acc, kd : acc * 5 + KindIx(kd), 0, scs[j].ks, 1) * (2 * j + 1) + Code(scs, j + 1)
RunCode == Fold(LAMBDA acc, f : acc * 31 + Code(AllScens(f), 1) + f.fbg + 2 * f.rule.rbg, 0, run.feats, 1)
\* runs with an unselected feature or rule are few and matter for the hook-exclusion rows of props/c15.py: every 3rd of them
EmitThis == RunCode % EmitMod = 0 \/ ((~sh.fsel \/ (sh.rule.kind = "rule" /\ ~sh.rule.sel)) /\ RunCode % 3 = 0)
Emit == (ph = "case" /\ EmitThis) =>
   LET b == Build(run, CodeGen)
       o == Outputs(b)
       dead == Crashes(o) # {}
   IN PrintT(<<"CASE", ToJson([run |-> run, kinds |-> b.kinds, events |-> b.ev, st |-> b.X.st, sst |-> b.X.sst,
                               clauses |-> [c \in KnownFamilies |-> c \in Names(d.v)], dead |-> dead,
                               json |-> o.json.out, plain |-> o.plain.lines, p2 |-> o.prog.p2, p3 |-> o.prog.p3, p1 |-> o.sprog.p1])>>)
=============================================================================
