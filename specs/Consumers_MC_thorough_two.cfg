INIT Init
NEXT Next
CONSTANTS
  MaxOwn = 2
  MaxScen = 2
  OtherModes = {"before", "after"}
  EmitMod = 31
INVARIANT ClausesHold
INVARIANT RepairedHolds
INVARIANT KFNarrow
INVARIANT Emit
