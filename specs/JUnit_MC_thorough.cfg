INIT Init
NEXT Next
CONSTANTS
  MaxScen = 4
  FullUpTo = 3
  EmitMod = 211
INVARIANT ClausesHold
INVARIANT RepairedHolds
INVARIANT KFNarrow
INVARIANT RepairOnlyThere
INVARIANT Conservation
INVARIANT WalkIsDocOrder
INVARIANT Emit
