INIT Init
NEXT Next
CONSTANTS
  MaxGroups = 3
  MaxAlts = 3
  Names <- NamesTwo
  Universe <- Univ
  V2Depth = 0
  V2Operands <- OpsV2
  NB = 1
  Styles <- TwoStyles
  EmitMod = 128
INVARIANT ReadBack
INVARIANT V1Algorithm
INVARIANT AutoOnV1
INVARIANT AutoOnMixed
INVARIANT AutoOnV2
INVARIANT Witness
INVARIANT Emit
