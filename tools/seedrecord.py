#!/venv/bin/python
"""tools/seedrecord.py <result dir>...: writes the lead's verification (from tools/seedtest.py JSON outputs) into
seeded/<id>/meta.json under "lead_verification"."""
import json
import os
import sys

HERE = os.path.dirname(os.path.dirname(os.path.abspath(__file__)))


def main():
    for d in sys.argv[1:]:
        for fn in sorted(os.listdir(d)):
            if not fn.endswith(".json"):
                continue
            sid = fn[:-5]
            mp = os.path.join(HERE, "seeded", sid, "meta.json")
            if not os.path.exists(mp):
                continue
            try:
                r = json.load(open(os.path.join(d, fn)))
            except ValueError:
                continue
            if not r.get("checks"):
                continue
            m = json.load(open(mp))
            lv = m.get("lead_verification") or {}
            for c, v in r["checks"].items():
                clauses = sorted({l.split("clause=")[1].split()[0] for l in v["lines"] if l.startswith("VIOLATION")})
                lv["check"] = c
                lv["check_rc"] = v["rc"]
                lv["caught_by"] = clauses
                lv["tier"] = os.environ.get("SEED_TIER", "quick")
            if r.get("demo_clean") is not None:
                lv["demo_rc_clean_copy"] = r["demo_clean"][0]
                lv["demo_rc_changed_copy"] = (r.get("demo_mutant") or [None])[0]
            if isinstance(r.get("pytest"), dict):
                lv["pytest"] = "%d passed / %d failed" % (r["pytest"]["passed"], r["pytest"]["failed"])
            lv["ran"] = "tools/seedtest.py seeded/%s %s (patch applied to a private worktree copy of /repo; checks run with VERIF_REPO)" % (sid, lv.get("check", ""))
            m["lead_verification"] = lv
            json.dump(m, open(mp, "w"), indent=1)
            print(sid, lv.get("caught_by"))


if __name__ == "__main__":
    main()
