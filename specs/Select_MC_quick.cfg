INIT Init
NEXT Next
CONSTANTS
  MaxEnt = 5
  Profiles <- ProfQuick
  STags <- TagsAll
  OTags <- TagsTwo
  MaxTagged <- TaggedQuick
  MaxList = 3
  ListPool <- PoolQuick
  Texts <- TextsQuick
INVARIANT BisectIsNearest
INVARIANT ZeroSelectsAll
INVARIANT UnionLaw
INVARIANT SetupTeardownExempt
INVARIANT GroupingLaw
INVARIANT ListFileLaw
INVARIANT NameLaw
INVARIANT Emit
