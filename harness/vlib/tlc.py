"""Running TLC and reading what it printed.

Every TLC call of the framework goes through run_tlc(): always under `timeout`, always with a
private metadir that is removed afterwards.  TLC is the judge; this module only transports.
"""
import json
import os
import re
import shutil
import subprocess
import tempfile
import time

HERE = os.path.dirname(os.path.abspath(__file__))
VERIF = os.path.dirname(os.path.dirname(HERE))
SPECS = os.path.join(VERIF, "specs")
JAR = "/opt/veriftools/tla/tla2tools.jar:/opt/veriftools/tla/CommunityModules-deps.jar"

_FINAL = re.compile(r"^(\d+) states generated, (\d+) distinct states found, (\d+) states left on queue")
_SIMFINAL = re.compile(r"The number of states generated: (\d+)")
_INV = re.compile(r"^Error: Invariant (\S+) is violated")
_ACTPROP = re.compile(r"^Error: Action property (\S+) is violated")
_COV = re.compile(r"^<(\w+) line (\d+), col \d+ to line \d+, col \d+ of module (\w+)>: (\d+):(\d+)")


class TlcError(Exception):
    """machinery failure (exit code 2 of the check), never a property verdict"""


class TlcResult(object):
    def __init__(self):
        self.rc = None
        self.generated = 0          # "states generated"  (= transitions explored + initial)
        self.distinct = 0           # "distinct states found"
        self.queue = 0
        self.depth = 0
        self.tuples = []            # parsed PrintT(<<...>>) lines
        self.violated = []          # invariant / action-property names reported violated
        self.errors = []            # other "Error:" lines
        self.coverage = {}          # action -> (distinct, total)
        self.wall = 0.0
        self.cmd = ""
        self.out_path = None
        self.timed_out = False

    def by_tag(self, tag):
        return [t for t in self.tuples if t and t[0] == tag]

    def ok(self):
        return self.rc == 0 and not self.violated and not self.errors


def parse_tuple_line(line):
    """<<"CASE", "json..", 3>>  ->  ["CASE", "json..", 3]; None if the line is no tuple."""
    line = line.strip()
    if not (line.startswith("<<") and line.endswith(">>")):
        return None
    inner = line[2:-2]
    try:
        val = json.loads("[" + inner + "]")
    except ValueError:
        try:
            val = json.loads("[" + _tla_to_json(inner) + "]")
        except ValueError:
            return None
    return val


def _tla_to_json(s):
    # nested <<..>> and TRUE/FALSE outside strings
    out = []
    i = 0
    instr = False
    while i < len(s):
        c = s[i]
        if instr:
            out.append(c)
            if c == "\\":
                out.append(s[i + 1]); i += 1
            elif c == '"':
                instr = False
        else:
            if c == '"':
                instr = True; out.append(c)
            elif s.startswith("<<", i):
                out.append("["); i += 1
            elif s.startswith(">>", i):
                out.append("]"); i += 1
            elif s.startswith("TRUE", i):
                out.append("true"); i += 3
            elif s.startswith("FALSE", i):
                out.append("false"); i += 4
            elif c == "{":
                out.append("[")
            elif c == "}":
                out.append("]")
            else:
                out.append(c)
        i += 1
    return "".join(out)


def run_tlc(module, cfg=None, env=None, workers=16, timeout=900, simulate=None, depth=None,
            seed=None, coverage=True, deadlock=False, specdir=SPECS, heap="6g", keep_output=False,
            extra=(), dfs=False):
    """Run TLC on specs/<module>.tla with specs/<cfg>.  Returns a TlcResult.

    simulate: None or number of behaviours (uses -simulate num=N), depth: -depth D.
    Raises TlcError on machinery failures (parse errors, timeouts, crashes)."""
    cfg = cfg or (module + ".cfg")
    meta = tempfile.mkdtemp(prefix="verif-tlc-")
    res = TlcResult()
    # (TLC unpacks its standard modules into a directory of its own under java.io.tmpdir and leaves it behind: point it
    #  into the private metadir, which is removed afterwards)
    java = ["java", "-XX:+UseParallelGC", "-Xss128m", "-Djava.io.tmpdir=%s" % meta]
    if heap:
        java.append("-Xmx%s" % heap)
    if dfs:
        java.append("-Dtlc2.tool.queue.IStateQueue=StateDeque")
    cmd = ["timeout", "-k", "10", str(int(timeout))] + java + ["-cp", JAR, "tlc2.TLC",
           "-workers", str(workers), "-metadir", meta, "-noGenerateSpecTE"]
    if coverage and not simulate:
        cmd += ["-coverage", "1"]
    if not deadlock:
        cmd += ["-deadlock"]           # -deadlock = do NOT check for deadlock
    if simulate:
        cmd += ["-simulate", "num=%d" % simulate]
    if depth:
        cmd += ["-depth", str(depth)]
    if seed is not None:
        cmd += ["-seed", str(seed)]
    cmd += list(extra)
    cmd += ["-config", cfg, module + ".tla"]
    res.cmd = " ".join(cmd)
    e = dict(os.environ)
    e.pop("JAVA_TOOL_OPTIONS", None)
    if env:
        e.update({k: str(v) for k, v in env.items()})
    out_path = os.path.join(meta, "tlc.out")
    t0 = time.time()
    try:
        with open(out_path, "w") as fh:
            p = subprocess.run(cmd, cwd=specdir, env=e, stdout=fh, stderr=subprocess.STDOUT)
        res.rc = p.returncode
        res.wall = time.time() - t0
        _parse_output(out_path, res)
        if res.rc == 124 or res.rc == 137:
            res.timed_out = True
            raise TlcError("TLC timed out after %ss: %s" % (timeout, res.cmd))
        fatal = [x for x in res.errors if _is_machinery(x)]
        if fatal:
            raise TlcError("TLC failed: %s\n%s" % ("; ".join(fatal[:3]), _tail(out_path)))
        if res.rc not in (0, 12, 13) and not res.violated:
            raise TlcError("TLC exit code %s\n%s" % (res.rc, _tail(out_path)))
        return res
    finally:
        if keep_output:
            keep = tempfile.mktemp(prefix="tlc-out-", suffix=".txt")
            try:
                shutil.copy(out_path, keep)
                res.out_path = keep
            except OSError:
                pass
        shutil.rmtree(meta, ignore_errors=True)


def _tail(path, n=40):
    try:
        with open(path) as fh:
            lines = [l for l in fh.read().splitlines() if not l.startswith(("Parsing file", "Semantic processing", "Linting"))]
        return "\n".join(lines[-n:])
    except OSError:
        return ""


def _is_machinery(err):
    keys = ("Parsing or semantic analysis failed", "TLC threw an unexpected exception", "java.lang",
            "Unknown operator", "was not found", "Attempted to", "The exception was", "In evaluation, the identifier",
            "evaluating the expression", "TLC encountered", "is not a valid", "Could not", "No file", "Cannot find",
            "The first argument of", "The second argument of", "The specification contains", "overflow",
            "non-enumerable", "could not be", "Assumption", "Evaluating assumption", "IOEnv", "TLC was unable",
            "unparsable tuple")
    return any(k in err for k in keys)


def _balanced(text):
    depth = 0
    instr = False
    i = 0
    while i < len(text):
        c = text[i]
        if instr:
            if c == "\\":
                i += 1
            elif c == '"':
                instr = False
        elif c == '"':
            instr = True
        elif text.startswith("<<", i):
            depth += 1
            i += 1
        elif text.startswith(">>", i):
            depth -= 1
            i += 1
        i += 1
    return depth == 0 and not instr


def _parse_output(path, res):
    with open(path, errors="replace") as fh:
        pending = None
        for raw in fh:
            line = raw.rstrip("\n")
            if pending is not None:
                # TLC pretty-prints long tuples over several lines: join until the tuple is closed
                pending += " " + line.strip()
                if line.rstrip().endswith(">>") and _balanced(pending):
                    t = parse_tuple_line(pending)
                    if t is not None:
                        res.tuples.append(t)
                    else:
                        res.errors.append("Error: unparsable tuple printed by TLC: %s" % pending[:200])
                    pending = None
                continue
            if line.startswith("<<"):
                if line.rstrip().endswith(">>") and _balanced(line):
                    t = parse_tuple_line(line)
                    if t is not None:
                        res.tuples.append(t)
                    else:
                        res.errors.append("Error: unparsable tuple printed by TLC: %s" % line[:200])
                else:
                    pending = line
                continue
            m = _FINAL.match(line)
            if m:
                res.generated, res.distinct, res.queue = int(m.group(1)), int(m.group(2)), int(m.group(3))
                continue
            m = _SIMFINAL.search(line)
            if m:
                res.generated = int(m.group(1))
                res.distinct = max(res.distinct, int(m.group(1)))
                continue
            if line.startswith("The depth of the complete state graph search is"):
                try:
                    res.depth = int(line.rstrip(".").split()[-1])
                except ValueError:
                    pass
                continue
            m = _INV.match(line) or _ACTPROP.match(line)
            if m:
                res.violated.append(m.group(1))
                continue
            m = _COV.match(line)
            if m:
                res.coverage[m.group(1)] = (int(m.group(4)), int(m.group(5)))
                continue
            if line.startswith("Error:"):
                if "The behavior up to this point" in line or "The error occurred when" in line:
                    continue
                res.errors.append(line)
            elif "Parsing or semantic analysis failed" in line or "***Parse Error***" in line:
                res.errors.append(line)


def sany(module, specdir=SPECS):
    p = subprocess.run(["java", "-cp", JAR, "tla2sany.SANY", module + ".tla"], cwd=specdir,
                       stdout=subprocess.PIPE, stderr=subprocess.STDOUT, universal_newlines=True)
    ok = p.returncode == 0 and "conflicts with" not in p.stdout and "Semantic errors" not in p.stdout and "Parse Error" not in p.stdout and "Fatal" not in p.stdout
    return ok, p.stdout


def write_ndjson(path, rows):
    with open(path, "w") as fh:
        for r in rows:
            fh.write(json.dumps(r, sort_keys=True, ensure_ascii=True))
            fh.write("\n")
