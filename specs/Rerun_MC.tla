----------------------------- MODULE Rerun_MC -----------------------------
(***************************************************************************)
(* Design-level check of C17: one state per small abstract model after a   *)
(* run -- <= MaxFeat features; items: plain scenario "s", rule with n      *)
(* scenarios "r", outline with n rows "o", rule holding an outline with n  *)
(* rows "x" (n <= 2); <= MaxScen scenarios in total; every assignment of   *)
(* final scenario statuses over Statuses; optionally one feature whose     *)
(* hook failed; statuses of rules / outlines / features derived by the     *)
(* roll-up of the code (compute_status, first problem in document order).  *)
(* The formatter automaton of Rerun.tla is driven by the engine's          *)
(* call-outs (features that are skipped as a whole are announced only with *)
(* show_skipped), with and without a stale file, and its output is fed     *)
(* back.  INVARIANT ClausesHold: every clause of (P) holds -- except       *)
(* C17.exact where the narrowly defined KF_C17_error_class_ignored holds   *)
(* (the genuine defect, DESIGN §8 #2), so that TLC goes on.                *)
(* start -> one state per shape (spreads the work over the workers) ->     *)
(* one state per (statuses, hooked feature).                               *)
(***************************************************************************)
EXTENDS Rerun, Json
CONSTANTS MaxScen, MaxFeat, EmitMod

Statuses == <<"passed", "failed", "error", "hook_error", "skipped", "untested">>
StatusSet == SeqSet(Statuses)
ItemSet == {[k |-> "s", n |-> 1]} \cup {[k |-> kk, n |-> nn] : kk \in {"r", "o", "x"}, nn \in 1..2}
RECURSIVE ItemSeqs(_)
ItemSeqs(w) == {<<>>} \cup UNION {{<<it>> \o rest : rest \in ItemSeqs(w - it.n)} : it \in {x \in ItemSet : x.n <= w}}
RECURSIVE Weight(_)
Weight(its) == IF its = <<>> THEN 0 ELSE Head(its).n + Weight(Tail(its))
\* Gherkin: a Rule reaches to the next Rule or to the end of the file, so plain scenarios / outlines come first
RuleLast(its) == \A a, b \in DOMAIN its : (a < b /\ its[a].k \in {"r", "x"}) => its[b].k \in {"r", "x"}
FeatShapes(w) == {its \in ItemSeqs(w) \ {<<>>} : RuleLast(its)}
Shapes == {<<f>> : f \in FeatShapes(MaxScen)}
          \cup (IF MaxFeat < 2 THEN {}
                ELSE UNION {{<<f1, f2>> : f2 \in FeatShapes(MaxScen - Weight(f1))} : f1 \in FeatShapes(MaxScen - 1)})
NScen(sh) == LET RECURSIVE S(_) S(k) == IF k > Len(sh) THEN 0 ELSE Weight(sh[k]) + S(k + 1) IN S(1)

\* ---------------------------------------------------------------- shape -> flat element table (ids in document order)
E(kind, parent, fi) == [kind |-> kind, parent |-> parent, fidx |-> fi]
RECURSIVE AddItems(_,_,_,_,_)
AddItems(acc, its, k, fel, fi) ==
   IF k > Len(its) THEN acc
   ELSE LET it == its[k]
            n0 == Len(acc)
            Rows(parent, n) == [j \in 1..n |-> E("scenario", parent, fi)]
            new == CASE it.k = "s" -> <<E("scenario", fel, fi)>>
                     [] it.k = "r" -> <<E("rule", fel, fi)>> \o Rows(n0 + 1, it.n)
                     [] it.k = "o" -> <<E("outline", fel, fi)>> \o Rows(n0 + 1, it.n)
                     [] it.k = "x" -> <<E("rule", fel, fi), E("outline", n0 + 1, fi)>> \o Rows(n0 + 2, it.n)
        IN AddItems(acc \o new, its, k + 1, fel, fi)
RECURSIVE AddFeats(_,_,_)
AddFeats(acc, sh, fn) ==
   IF fn > Len(sh) THEN acc
   ELSE AddFeats(AddItems(Append(acc, E("feature", 0, fn - 1)), sh[fn], 1, Len(acc) + 1, fn - 1), sh, fn + 1)
Table(sh) == AddFeats(<<>>, sh, 1)

\* ---------------------------------------------------------------- roll-up of the code (model.py compute_status)
IsError(s) == s \in ErrorClass
RECURSIVE ContFrom(_,_,_,_)
ContFrom(cs, k, skipped, passed) ==          \* ScenarioContainer.compute_status (feature, rule) without hook failure
   IF k > Len(cs) THEN (IF skipped THEN "skipped" ELSE "passed")
   ELSE LET s == cs[k] IN
        IF IsError(s) THEN "error"
        ELSE IF s = "failed" THEN "failed"
        ELSE IF s = "untested" THEN (IF passed > 0 THEN "failed" ELSE "untested")
        ELSE ContFrom(cs, k + 1, skipped /\ s = "skipped", IF s = "passed" THEN passed + 1 ELSE passed)
RECURSIVE OutlineFrom(_,_,_,_)
OutlineFrom(cs, k, nskipped, npassed) ==     \* ScenarioOutline.compute_status (as repaired: untested rows count)
   IF k > Len(cs) THEN (IF nskipped > 0 /\ nskipped = Len(cs) THEN "skipped" ELSE "passed")
   ELSE IF IsError(cs[k]) THEN "error" ELSE IF cs[k] = "failed" THEN "failed"
   ELSE IF cs[k] = "untested" THEN (IF npassed > 0 THEN "failed" ELSE "untested")
   ELSE IF cs[k] = "skipped" THEN OutlineFrom(cs, k + 1, nskipped + 1, npassed)
   ELSE OutlineFrom(cs, k + 1, nskipped, npassed + 1)

Model(sh, ss, hk) ==
   LET T   == Table(sh)
       N   == Len(T)
       ids == [i \in 1..N |-> i]
       kids == [el \in 1..N |-> SelectSeq(ids, LAMBDA e : T[e].parent = el)]
       prog == [el \in 1..N |-> [kind |-> T[el].kind, parent |-> T[el].parent, children |-> kids[el], tags |-> <<>>]]
       scs == SelectSeq(ids, LAMBDA e : T[e].kind = "scenario")
       nth(el) == CHOOSE j \in DOMAIN scs : scs[j] = el
       feats == SelectSeq(ids, LAMBDA e : T[e].kind = "feature")
       hooked == IF hk = 0 THEN 0 ELSE feats[hk]
       RECURSIVE St(_)
       St(el) == CASE T[el].kind = "scenario" -> ss[nth(el)]
                   [] T[el].kind = "outline"  -> OutlineFrom([j \in DOMAIN kids[el] |-> St(kids[el][j])], 1, 0, 0)
                   [] OTHER -> IF el = hooked THEN "hook_error"
                               ELSE ContFrom([j \in DOMAIN kids[el] |-> St(kids[el][j])], 1, TRUE, 0)
       m0 == [prog |-> prog]
   IN [prog |-> prog, status |-> [el \in 1..N |-> St(el)], fidx |-> [el \in 1..N |-> T[el].fidx],
       line |-> [el \in 1..N |-> 2 * (el - FeatOf(m0, el)) + 1]]

\* statuses a run can leave behind: inside one feature the scenarios run in document order and once the run of the
\* feature is cut (abort, --stop, failed before_feature hook) everything after stays untested -- an untested scenario
\* is never followed by one that ran (it may be followed by one that was marked skipped before the run).  (The property quantifies over runs; other assignments are not judged.)
FirstOf(sh, fn) == LET RECURSIVE S(_) S(k) == IF k >= fn THEN 0 ELSE Weight(sh[k]) + S(k + 1) IN S(1) + 1
RunShaped(sh, f) == \A fn \in DOMAIN sh : \A a, b \in FirstOf(sh, fn)..(FirstOf(sh, fn) + Weight(sh[fn]) - 1) :
                        (a < b /\ f[a] = "untested") => f[b] \in {"untested", "skipped"}

\* which feature may be the hook-failed one: any -- except in the largest two-feature models of the thorough bound
\* (4 scenarios), where only the first is tried (keeps the thorough tier inside its time budget)
HkMax(sh) == IF MaxScen >= 4 /\ Len(sh) = 2 /\ NScen(sh) = MaxScen THEN 1 ELSE Len(sh)

\* ---------------------------------------------------------------- state space
\* m = the model of the state, built once when the state is created (the invariants only read it)
VARIABLES ph, sh, ss, hk, m
vars == <<ph, sh, ss, hk, m>>
Init == ph = "start" /\ sh = <<>> /\ ss = <<>> /\ hk = 0 /\ m = <<>>
Next == \/ ph = "start" /\ ph' = "shape" /\ sh' \in Shapes /\ UNCHANGED <<ss, hk, m>>
        \/ ph = "shape" /\ ph' = "case" /\ sh' = sh /\ ss' \in {f \in [1..NScen(sh) -> StatusSet] : RunShaped(sh, f)}
           /\ hk' \in 0..HkMax(sh) /\ m' = Model(sh, ss', hk')
Spec == Init /\ [][Next]_vars

\* features announced to the formatters: all with show_skipped, otherwise those not skipped as a whole
Announced(show) == {f \in SeqSet(FeatSeq(m)) : show \/ m.status[f] # "skipped"}
Shows == IF \E f \in SeqSet(FeatSeq(m)) : m.status[f] = "skipped" THEN BOOLEAN ELSE {TRUE}
\* the file before the run is a stale one (close() always comes, so the file afterwards does not depend on it; the
\* stale file is the harder start: it must be overwritten or removed)
CodeFile(show)     == FileAfter(m, EngineCalls(m, Announced(show)), StaleFile)
RepairedFile(show) == FileAfterRepaired(m, EngineCalls(m, Announced(show)), StaleFile)
ClausesOf(file) == FileClauses(m, FALSE, file) \cup LoopClauses(m, file, FeedBack(m, file.lines))
\* (S) composed with (P): the code's automaton satisfies every clause, except the named defect family
ClausesHold == ph = "case" => \A show \in Shows : ClausesOf(CodeFile(show)) \subseteq KnownFamilies
\* the same with @setup / @teardown as OWN tag of one scenario (or of all): the code model leaves them to run, the loop
\* clause accepts that and nothing else
Tagged(S) == [m EXCEPT !.prog = [el \in DOMAIN m.prog |-> IF el \in S THEN [m.prog[el] EXCEPT !.tags = <<"setup">>] ELSE m.prog[el]]]
ExemptHolds == (ph = "case" /\ hk = 0) =>
   LET file == CodeFile(TRUE) IN
   file.exists => \A S \in {{s} : s \in Scens(m)} \cup {Scens(m)} :
       LET mt == Tagged(S)
           fb == FeedBack(mt, file.lines) IN
       /\ LoopClauses(mt, file, fb) = {}
       /\ fb.sel = Listed(mt, file) \cup {s \in S : \E i \in DOMAIN file.lines : file.lines[i].f = m.fidx[s]}
\* (RepairedHolds and KFNarrow are no longer in the cfgs: since the repair of eof() in /repo the code model IS the repaired
\*  automaton, so RepairedHolds repeats ClausesHold and the exception predicate is never used)
\* the clauses can be met: with the repaired eof() nothing at all fires (so (P) asks nothing impossible)
RepairedHolds == ph = "case" => \A show \in Shows : ClausesOf(RepairedFile(show)) = {}
\* the exception is as narrow as the defect: whenever it is used, some unsuccessful scenario is error-class or sits in a
\* feature whose own status is not `failed`, and every line that IS in the file is right
KFNarrow == ph = "case" =>
   LET file == CodeFile(TRUE) IN
   KF_C17_error_class_ignored(m, file) =>
      /\ \E s \in SeqSet(UnsuccSeq(m)) : m.status[s] \in ErrorClass \/ m.status[FeatOf(m, s)] # "failed"
      /\ \A i \in DOMAIN file.lines : ScenAt(m, file.lines[i]) \subseteq SeqSet(UnsuccSeq(m))
\* the feed-back model agrees with the definition for every set of scenario locations (judged once per shape: it does
\* not depend on the statuses)
FeedBackDefinitional == (ph = "case" /\ hk = 0 /\ \A k \in DOMAIN ss : ss[k] = "passed") =>
   \A S \in SUBSET Scens(m) :
       LET seq == SelectSeq(ScenSeq(m), LAMBDA s : s \in S)
           fb == FeedBack(m, LocsOf(m, seq)) IN
       S # {} => fb.ok /\ fb.sel = S
\* ... and for lines that are no scenario start the code model selects by the nearest entry above (rule / outline /
\* feature line: all its scenarios; a line inside a scenario: that scenario)
FeedBackBetween == (ph = "case" /\ hk = 0 /\ \A k \in DOMAIN ss : ss[k] = "passed") =>
   \A f \in SeqSet(FeatSeq(m)) : \A l \in 1..(2 * Len(m.prog) + 2) :
       LET sel == FeedBack(m, << [f |-> m.fidx[f], l |-> l] >>).sel
           at  == {e \in Els(m) : FeatOf(m, e) = f /\ m.line[e] \in {l, l - 1}} IN
       sel = IF at = {} THEN SeqSet(Walk(m, Max(Under(m, f)))) ELSE SeqSet(Walk(m, CHOOSE e \in at : TRUE))

StatusIx(s) == CHOOSE j \in DOMAIN Statuses : Statuses[j] = s
RECURSIVE Code(_,_)
Code(seq, k) == IF k > Len(seq) THEN 0 ELSE StatusIx(seq[k]) * k * k + Code(seq, k + 1)
EmitThis == NScen(sh) <= 2 \/ (Code(ss, 1) + 3 * hk + 5 * Len(sh[1])) % EmitMod = 0
Pred(show) == LET file == CodeFile(show)
                  cl == ClausesOf(file) IN
   [ann |-> [e \in 1..Len(m.prog) |-> e \in Announced(show)],
    exists |-> file.exists, lines |-> file.lines, sel |-> [e \in 1..Len(m.prog) |-> e \in FeedBack(m, file.lines).sel],
    clauses |-> [c \in {"C17.exact", "C17.exact/error_class_ignored", "C17.stale_removed", "C17.loop"} |-> c \in cl]]
Emit == (ph = "case" /\ EmitThis) =>
   PrintT(<<"CASE", ToJson([sh |-> sh, ss |-> ss, hk |-> hk, status |-> m.status, line |-> m.line, fidx |-> m.fidx,
                            kinds |-> [el \in DOMAIN m.prog |-> m.prog[el].kind],
                            parents |-> [el \in DOMAIN m.prog |-> m.prog[el].parent],
                            hidden |-> Pred(FALSE), shown |-> Pred(TRUE)])>>)
=============================================================================
