"""Running the real parser entry points and recording what is observable (outcome class, model projection)."""
import logging
import os
import signal
import traceback


class _Timeout(BaseException):
    pass


def _alarm(signum, frame):
    raise _Timeout()


def quiet_logging():
    lg = logging.getLogger("behave")
    if not any(isinstance(h, logging.NullHandler) for h in lg.handlers):
        lg.addHandler(logging.NullHandler())
    lg.propagate = False


def call_entry(entry, text, language=None, filename=None):
    from behave import parser
    if entry == "feature":
        return parser.parse_feature(text, language=language, filename=filename)
    if entry == "file":
        return parser.parse_file(filename, language=language)
    if entry == "rule":
        return parser.parse_rule(text, language=language)
    if entry == "scenario":
        return parser.parse_scenario(text, language=language)
    if entry == "steps":
        return parser.parse_steps(text, language=language)
    if entry == "tags":
        return parser.parse_tags(text)
    raise ValueError(entry)


def parser_call(parser, entry, text):
    """the public methods of ONE Parser object (behave re-uses feature.parser for every context.execute_steps())"""
    if entry == "feature":
        return parser.parse(text)
    if entry == "steps":
        return parser.parse_steps(text)
    if entry == "scenario":
        return parser.parse_scenario(text)
    if entry == "rule":
        return parser.parse_rule(text)
    raise ValueError(entry)


def outcome(entry, text, language=None, filename=None, timeout=5.0, parser=None):
    """-> (obs, result): obs = {"k": accept|error|internal|timeout, "n": line, "exc": type, "at": function}
    parser: an existing Parser object to call instead of the module level entry point"""
    from behave.parser import ParserError
    obs = {"k": "accept", "n": 0, "exc": "", "at": ""}
    result = None
    # CPU time of this process, not wall time: a starved machine must not look like a parser that does not terminate
    old = signal.signal(signal.SIGPROF, _alarm)
    signal.setitimer(signal.ITIMER_PROF, timeout)
    try:
        try:
            if parser is not None:
                result = parser_call(parser, entry, text)
            else:
                result = call_entry(entry, text, language, filename)
        finally:
            signal.setitimer(signal.ITIMER_PROF, 0)
    except ParserError as e:
        n = e.line
        obs.update(k="error", n=n if isinstance(n, int) and not isinstance(n, bool) else -1, exc="ParserError")
    except _Timeout:
        obs.update(k="timeout", exc="Timeout")
    except BaseException as e:       # noqa: B902 -- whatever escapes is recorded, never raised into the harness
        at = ""
        for fr in traceback.extract_tb(e.__traceback__):
            if os.path.basename(fr.filename) == "parser.py":
                at = fr.name
        obs.update(k="internal", exc=type(e).__name__, at=at)
    finally:
        signal.signal(signal.SIGPROF, old)
    return obs, result
