\* falsy values: set / use_or_assign / use_or_create with the values 1 False None 0 '' [] on one name and on the pre-defined text/table
INIT Init
NEXT Next
CONSTANTS
  OpsAt <- Ops3020
  UNames = {1}
  Vals = {1, 3, 6, 7, 8, 9}
  WithFailed = FALSE
  WithRoot = FALSE
  WithUseOr = TRUE
  WithReads = FALSE
  WithMode = FALSE
  WithExec = FALSE
  MaxIds = 0
  ArgModes = {0, 1}
  WithFixtures = FALSE
  WithAttrs = TRUE
  NestSet <- NestNone
  TwoRuns = FALSE
  OpsB = 0
  EqualLayers = FALSE
  UseOrRoot = TRUE
INVARIANT Visible
INVARIANT Shadow
INVARIANT DeleteLocal
INVARIANT ScopeEnd
INVARIANT RootAttr
INVARIANT CleanupOnce
INVARIANT CleanupLifo
INVARIANT CleanupDespiteErrors
INVARIANT CleanupLayer
INVARIANT FixtureCleanup
INVARIANT ExecStepsRestore
INVARIANT ApiErrors
INVARIANT Shape
INVARIANT ViewsAgree
INVARIANT Emit
