-------------------------- MODULE ActiveTags_Trace --------------------------
(* Judge of C19 on rows recorded from the real ActiveTagMatcher /           *)
(* CompositeTagMatcher.  One state per row.  A row describes one concrete   *)
(* tag list under one matcher configuration and carries one observation per *)
(* combination of current values (combos[j][k] = index into cats[k].ch):    *)
(*   ex[j]   should_exclude_with(tags)            (first call, fresh objects)*)
(*   run[j]  should_run_with(tags)                                           *)
(*   ex2[j]  should_exclude_with(tags) again, after a call with `warm`      *)
(*   mex[j]  the answers of the members of a CompositeTagMatcher            *)
(*   exc[j]  type name of an escaped exception ("" if none)                 *)
(* VERDICT lines come from the DEFINITION of the statement only; DIVERGE    *)
(* lines (informational) compare with the algorithm model of ActiveTags.    *)
EXTENDS ActiveTags, Json, IOUtils
Rows == ndJsonDeserialize(IOEnv.TRACE_FILE)

VARIABLE i
Init == i = 1
R == Rows[i]

\* ---------------------------------------------------------------- current values of a row
CatIdx(r, m) == {k \in DOMAIN r.cats : m = 0 \/ r.cats[k].mem = m}
FirstIdx(r, m, c) == LET ks == {k \in CatIdx(r, m) : r.cats[k].name = c} IN CHOOSE k \in ks : \A x \in ks : k <= x
CurOf(r, j, m) == [c \in {r.cats[k].name : k \in CatIdx(r, m)} |->
                      LET k == FirstIdx(r, m, c) IN VSpec(r.cats[k].kind, r.cats[k].op, r.cats[k].ch[r.combos[j][k]])]
IsVO(r, c) == \E k \in DOMAIN r.cats : r.cats[k].name = c /\ r.cats[k].vo
NM(r) == IF r.mk = "composite" THEN r.nm ELSE 0

\* ---------------------------------------------------------------- clauses (definition of the statement)
\* attribution of "observed obs where the definition says D" for the active tags A under current values cur
Blame(r, A, N, cur, obs, D) ==
   LET Kn    == DOMAIN cur
       unk   == {a.cat : a \in {x \in A : x.cat \notin Kn}}
       curU  == [c \in Kn \cup unk |-> IF c \in Kn THEN cur[c] ELSE Junk]
       vo    == \E a \in A : a.cat \in Kn /\ IsVO(r, a.cat)
   IN IF obs = D THEN {}
      ELSE IF obs /\ A = {} THEN {<<"C19.non_active", "over">>}
      ELSE IF obs /\ unk # {} /\ DefExcludedA(A, N, curU)
           THEN \* "+known": the list also has active tags of known categories (the blame is then not unique)
                {<<"C19.unknown_category", IF \E a \in A : a.cat \in unk /\ a.pre \notin N
                                           THEN (IF \E a \in A : a.cat \in Kn THEN "over.upos+known" ELSE "over.upos")
                                           ELSE "over.uneg">>}
      ELSE {<<IF vo THEN "C19.value_objects" ELSE "C19.exclude", IF obs THEN "over" ELSE "under">>}
Judge(r, j, A, N) ==
      IF r.exc[j] # "" THEN {<<"C19.exclude", "exc">>}
      ELSE (IF r.run[j] = r.ex[j] THEN {<<"C19.run_is_negation", "same">>} ELSE {})
        \cup
        (IF r.mk = "composite"
         THEN (IF r.ex[j] # (\E m \in 1..r.nm : r.mex[j][m]) THEN {<<"C19.composite", "any">>} ELSE {})
              \cup UNION {LET cur == CurOf(r, j, m) IN Blame(r, A, N, cur, r.mex[j][m], DefExcludedA(A, N, cur)) : m \in 1..r.nm}
         ELSE LET cur == CurOf(r, j, 0)  D == DefExcludedA(A, N, cur) IN
              Blame(r, A, N, cur, r.ex[j], D)
              \cup (IF r.ex2[j] # r.ex[j] /\ r.ex2[j] # D THEN {<<"C19.provider_cache", "warm">>} ELSE {}))
Findings(r) == IF ~r.judge THEN {}
               ELSE LET N == SeqToSet(r.N)
                        A == DefActive(r.tags, SeqToSet(r.P), r.sep)      \* the active tags of the row, read once
                    IN UNION {{<<v[1], v[2], j>> : v \in Judge(r, j, A, N)} : j \in DOMAIN r.combos}
\* one line per (clause, what): the first observation that shows it
Minimal(F) == {f \in F : \A g \in F : (g[1] = f[1] /\ g[2] = f[2]) => f[3] <= g[3]}

\* ---------------------------------------------------------------- prediction of the algorithm model (informational)
ProvOf(r, j) == IF r.pk = "comp"
                THEN [pk |-> "comp", mem |-> [m \in 1..Len(r.mpk) |-> [pk |-> r.mpk[m], data |-> CurOf(r, j, m)]]]
                ELSE [pk |-> r.pk, mem |-> <<[pk |-> r.pk, data |-> CurOf(r, j, 0)]>>]
Predicted(r, j, sel, wsel) ==
   IF r.mk = "composite"
   THEN LET provs == [m \in 1..r.nm |-> DictProv(CurOf(r, j, m))] IN
        [ex |-> AlgCompositeSel(sel, provs, r.ign), ex2 |-> AlgCompositeSel(sel, provs, r.ign),
         mex |-> [m \in 1..r.nm |-> AlgExcludedSel(sel, provs[m], r.ign)]]
   ELSE LET p  == ProvOf(r, j)
            k1 == AlgCallSel(sel, p, r.ign, EmptyCache)                     \* should_exclude_with
            k2 == AlgCallSel(sel, p, r.ign, k1.cache)                       \* should_run_with
            k3 == AlgCallSel(wsel, p, r.ign, k2.cache)                      \* the warming call
            k4 == AlgCallSel(sel, p, r.ign, k3.cache)
        IN [ex |-> k1.ex, ex2 |-> k4.ex, mex |-> <<>>]
Diverges(r, j, sel, wsel) == r.exc[j] # "" \/ LET q == Predicted(r, j, sel, wsel) IN
                  \/ q.ex # r.ex[j] \/ q.ex2 # r.ex2[j] \/ r.run[j] = r.ex[j]
                  \/ (r.mk = "composite" /\ \E m \in 1..r.nm : q.mex[m] # r.mex[j][m])
DivergeAt(r) == LET sel  == AlgSelect(r.tags, r.P, r.sep)
                    wsel == AlgSelect(r.warm, r.P, r.sep)
                IN {j \in DOMAIN r.combos : Diverges(r, j, sel, wsel)}

Next == /\ i <= Len(Rows)
        /\ \A f \in Minimal(Findings(R)) : PrintT(<<"VERDICT", R.id, f[1], f[3], f[2]>>)
        /\ LET dv == DivergeAt(R) IN IF dv = {} THEN TRUE ELSE PrintT(<<"DIVERGE", R.id, Cardinality(dv)>>)
        /\ i' = i + 1
Spec == Init /\ [][Next]_i
Done == PrintT(<<"DONE", Len(Rows), TLCGet("stats").diameter>>)
=============================================================================
