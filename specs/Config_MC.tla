----------------------------- MODULE Config_MC -----------------------------
(* Design-level check of C20 and emission of abstract cases for replay.     *)
(*   layer  : one behaviour per (kind, file assignments, command line       *)
(*            assignment [, assignments of a forcing mode switch]); the     *)
(*            behaviour walks Default -> File_1 .. File_n -> CmdLine ->     *)
(*            post-processing with Config!LayerStep;                        *)
(*   dstr   : one state per -D string up to MaxDefine characters (a tree:   *)
(*            every string is the successor of its prefix);                 *)
(*   render : one state per rendering of a documented define form;          *)
(*   path   : one state per (cwd, directory of the file, named path);       *)
(*   couple : one state per (number of formats, number of outfiles);        *)
(*   gstr / gword : one state per user data text for the typed getters.     *)
EXTENDS Config, TLC, Json
CONSTANTS MaxDefine, MaxFiles, MaxPad, MaxGetter, MaxPath, MaxHist, MaxSeq

DefAlphabet == {"a", "=", " ", "\"", "'"}
GetAlphabet == {"1", "0", "7", "-", "+", ".", " ", "x"}
BoolPool == {<<"t","r","u","e">>, <<"T","r","u","e">>, <<"T","R","U","E">>, <<"y","e","s">>, <<"Y","E","S">>, <<"o","n">>,
             <<"O","n">>, <<"f","a","l","s","e">>, <<"F","a","l","s","e">>, <<"F","A","L","S","E">>, <<"n","o">>, <<"N","O">>,
             <<"o","f","f">>, <<"O","F","F">>, <<" ","y","e","s"," ">>, <<" ","o","f","f">>, <<"n","o"," ">>,
             <<"t","r","u">>, <<"o","n","n">>, <<"n","o","n","e">>, <<"y","e","s","s">>, <<"t","r","u","e","x">>, <<"o"," ","n">>}

Names  == {<<"a">>, <<"a","a">>}
Values == {<<>>, <<"a">>, <<"a","=","a">>, <<"a"," ","a">>, <<"=","a">>, <<"a","=">>, <<"a","\"","a">>, <<"a","'","a">>, <<"=">>}
Forms  == {"bare", "plain", "qpair", "qvalue"}
Pads   == [1..6 -> 0..MaxPad]
\* paddings a form does not use are fixed to 0 (no duplicate renderings)
UsesPad(form, k) == CASE form = "bare" -> k \in {1, 4}
                      [] form = "qpair" -> TRUE
                      [] OTHER -> k \in {1, 2, 3, 4}

Segs == {"a", "b", "..", "."}
SegSeqs(n) == UNION {[1..k -> Segs] : k \in 0..n}
Cwds == {<<"w">>, <<"w", "x", "y">>}
\* directory part of the configuration file name: relative ("" = plain file name in cwd, sub directories,
\* a sibling reached through ..) or absolute (a HOME directory at depth 1 and 3)
FileDirs == {[abs |-> FALSE, segs |-> <<>>], [abs |-> FALSE, segs |-> <<".">>], [abs |-> FALSE, segs |-> <<"s">>],
             [abs |-> FALSE, segs |-> <<"s", "t">>], [abs |-> FALSE, segs |-> <<"..", "h">>],
             [abs |-> TRUE, segs |-> <<"h">>], [abs |-> TRUE, segs |-> <<"h", "i", "j">>]}

NoLay == LayerInit("scalar", <<>>, "absent", <<>>, "absent", FALSE)
NoAux == [form |-> "", n |-> <<>>, v |-> <<>>, q |-> "", pads |-> <<0, 0, 0, 0, 0, 0>>,
          cwd |-> <<>>, d |-> [abs |-> FALSE, segs |-> <<>>], p |-> [abs |-> FALSE, segs |-> <<>>], nf |-> 0, no |-> 0,
          argv |-> <<>>, pos |-> 0, fa |-> <<"absent", "absent">>, ca |-> <<"absent", "absent">>]
\* command lines of up to two occurrences of two other options, a value-less colour switch inserted at every position
ArgItems == {[opt |-> o, val |-> v] : o \in {"o1", "o2"}, v \in {"v1", "v2"}}
Argvs == UNION {[1..n -> ArgItems] : n \in 0..2}
AllAbsent(n) == [k \in 1..n |-> "absent"]
FileSeqs == UNION {[1..n -> Assigns] : n \in 0..MaxFiles}

\* plain cases: every kind x every sequence of file assignments x every command-line assignment
PlainLayers == {LayerInit(k, fs, c, AllAbsent(Len(fs)), "absent", FALSE) :
                   k \in Kinds, fs \in FileSeqs, c \in Assigns}
\* coupled cases: a target option and a mode switch, one file
ModeTargets == {"boolpair", "boolflag", "choice", "fileonly"}
ModeLayers == {LayerInit(k, <<f>>, c, <<mf>>, mc, TRUE) :
                   k \in ModeTargets, f \in Assigns, c \in Assigns, mf \in Assigns, mc \in Assigns}
Layers == {l \in PlainLayers \cup ModeLayers : l.cmd \in CmdChoices(l.kind)}

\* histories of constructions in one process: the first one reads a file that assigns the option, the later
\* ones are arbitrary (no file, a file that omits or assigns the option, load_config=False, any command line)
HistKinds == Kinds \ {"udupdate"}
FirstCons(k) == {[kind |-> k, files |-> <<f>>, cmd |-> "absent", load |-> TRUE] : f \in {"v1", "v2"}}
LaterCons(k) == {[kind |-> k, files |-> fs, cmd |-> c, load |-> l] :
                    fs \in {<<>>, <<"absent">>, <<"v1">>, <<"v2">>}, c \in CmdChoices(k), l \in BOOLEAN}
Histories == UNION {{<<a>> \o t : a \in FirstCons(k), t \in UNION {[1..n -> LaterCons(k)] : n \in 1..(MaxHist - 1)}} : k \in HistKinds}
NoHist == HistInit(<<[kind |-> "scalar", files |-> <<>>, cmd |-> "absent", load |-> TRUE]>>)

\* sequences of getter calls on one object: all orders of 2 getters (incl. repeating one) for every text,
\* of 3..MaxSeq getters for every text that at least one getter converts
Getters == {"int", "float", "bool"}
AnyOk(s) == \E g \in Getters : Outcome(g, s).ok
GetSeqs(s) == [1..2 -> Getters] \cup (IF AnyOk(s) THEN UNION {[1..n -> Getters] : n \in 3..MaxSeq} ELSE {})
NoGh == GetInit(<<>>, <<>>)

VARIABLES ph, txt, lay, aux, hist, gh
vars == <<ph, txt, lay, aux, hist, gh>>
Init == ph = "start" /\ txt = <<>> /\ lay = NoLay /\ aux = NoAux /\ hist = NoHist /\ gh = NoGh
StartDefine == ph = "start" /\ ph' = "dstr" /\ txt' = <<>> /\ UNCHANGED <<lay, aux, hist, gh>>
GrowDefine  == ph = "dstr" /\ Len(txt) < MaxDefine /\ \E c \in DefAlphabet : txt' = Append(txt, c) /\ UNCHANGED <<ph, lay, aux, hist, gh>>
StartGetter == ph = "start" /\ ph' = "gstr" /\ txt' = <<>> /\ UNCHANGED <<lay, aux, hist, gh>>
GrowGetter  == ph = "gstr" /\ Len(txt) < MaxGetter /\ \E c \in GetAlphabet : txt' = Append(txt, c) /\ UNCHANGED <<ph, lay, aux, hist, gh>>
PickWord   == ph = "start" /\ ph' = "gword" /\ txt' \in BoolPool /\ UNCHANGED <<lay, aux, hist, gh>>
PickLayer  == ph = "start" /\ ph' = "layer" /\ lay' \in Layers /\ UNCHANGED <<txt, aux, hist, gh>>
StepLayer  == ph = "layer" /\ ~LayerDone(lay) /\ lay' = LayerStep(lay) /\ UNCHANGED <<ph, txt, aux, hist, gh>>
PickForm   == ph = "start" /\ ph' = "rsel" /\ UNCHANGED <<txt, lay, hist, gh>>
                /\ \E f \in Forms, n \in Names, v \in Values :
                      aux' = [NoAux EXCEPT !.form = f, !.n = n, !.v = IF f = "bare" THEN <<>> ELSE v]
PickRender == ph = "rsel" /\ ph' = "render" /\ UNCHANGED <<txt, lay, hist, gh>>
                /\ \E q \in (IF aux.form \in {"qpair", "qvalue"} THEN Quotes ELSE {""}),
                      pd \in {x \in Pads : \A k \in 1..6 : ~UsesPad(aux.form, k) => x[k] = 0} :
                      aux' = [aux EXCEPT !.q = q, !.pads = pd]
PickPath   == ph = "start" /\ ph' = "path" /\ UNCHANGED <<txt, lay, hist, gh>>
                /\ \E c \in Cwds, d \in FileDirs, pa \in BOOLEAN, ps \in SegSeqs(MaxPath) :
                      aux' = [NoAux EXCEPT !.cwd = c, !.d = d, !.p = [abs |-> pa, segs |-> IF pa THEN <<"r">> \o ps ELSE ps]]
PickCouple == ph = "start" /\ ph' = "couple" /\ UNCHANGED <<txt, lay, hist, gh>>
                /\ \E nf \in 0..3, no \in 0..3 : aux' = [NoAux EXCEPT !.nf = nf, !.no = no]
\* two keys that differ only in case (1: lower case, 2: mixed case), each assigned or not by the file and by -D
PickKeys   == ph = "start" /\ ph' = "keys" /\ UNCHANGED <<txt, lay, hist, gh>>
                /\ \E f \in [1..2 -> Assigns], c \in [1..2 -> Assigns] : aux' = [NoAux EXCEPT !.fa = f, !.ca = c]
PickArgv   == ph = "start" /\ ph' = "argv" /\ UNCHANGED <<txt, lay, hist, gh>>
                /\ \E a \in Argvs : \E k \in 1..(Len(a) + 1) : aux' = [NoAux EXCEPT !.argv = a, !.pos = k]
PickHist   == ph = "start" /\ ph' = "hist" /\ hist' \in {HistInit(c) : c \in Histories} /\ UNCHANGED <<txt, lay, aux, gh>>
StepHist   == ph = "hist" /\ ~HistDone(hist) /\ hist' = HistStep(hist) /\ UNCHANGED <<ph, txt, lay, aux, gh>>
PickSeq    == ph \in {"gstr", "gword"} /\ ph' = "gseq" /\ gh' \in {GetInit(txt, c) : c \in GetSeqs(txt)} /\ UNCHANGED <<txt, lay, aux, hist>>
StepSeq    == ph = "gseq" /\ ~GetDone(gh) /\ gh' = GetStep(gh) /\ UNCHANGED <<ph, txt, lay, aux, hist>>
Next == PickKeys \/ PickArgv \/ PickSeq \/ StepSeq \/ PickHist \/ StepHist \/ StartDefine \/ GrowDefine \/ StartGetter \/ GrowGetter \/ PickWord \/ PickLayer \/ StepLayer \/ PickForm \/ PickRender \/ PickPath \/ PickCouple
Spec == Init /\ [][Next]_vars

\* ---------------------------------------------------------------- layering laws
AtEnd == ph = "layer" /\ LayerDone(lay)
Forced == lay.hasmode /\ ModeOn(lay.mstore)
\* command line > file > default for every kind whose command-line form replaces
Precedence ==
   AtEnd /\ lay.kind \in ReplaceKinds /\ ~Forced => lay.store = Resolve(lay.files, lay.cmd)
\* after k files the store holds the last assigning file's value (or the default)
FilesInOrder ==
   ph = "layer" /\ lay.pc <= NF(lay) /\ lay.kind # "userdata"
      => lay.store = Resolve(SubSeq(lay.files, 1, lay.pc), "absent")
\* append options: the file's list first, then the command line's items (recorded, not part of the property)
AppendExtends ==
   AtEnd /\ lay.kind \in AppendKinds
      => lay.store = Resolve(lay.files, "absent") \o (IF lay.cmd = "absent" THEN <<>> ELSE <<CTok(lay.cmd)>>)
\* user data: -D always wins; with a single file the file's value is kept where -D is silent
UserdataOverride ==
   AtEnd /\ lay.kind = "userdata"
      => /\ lay.cmd # "absent" => lay.store = <<CTok(lay.cmd)>>
         /\ lay.cmd = "absent" /\ NF(lay) <= 1 => lay.store = Resolve(lay.files, "absent")
         /\ lay.cmd = "absent" => lay.store \in FileCandidates(lay.files) \cup {<<"d">>}
\* a forced value appears only when the mode switch, resolved by the same precedence rule, is on
ForcedOnlyByMode ==
   AtEnd => /\ lay.mstore = Resolve(lay.mfiles, lay.mcmd)
            /\ (lay.store = <<"forced">>) = Forced
\* a construction resolves by its own layers only, whatever the earlier constructions of the process have read,
\* and the class-level defaults stay the built-in ones
ConWant(con) == IF con.kind \in AppendKinds
                THEN Resolve(ConFiles(con), "absent") \o (IF con.cmd = "absent" THEN <<>> ELSE <<CTok(con.cmd)>>)
                ELSE Resolve(ConFiles(con), con.cmd)
HistoryIndependent ==
   ph = "hist" => /\ hist.cls = <<"d">>
                  /\ \A k \in DOMAIN hist.results : hist.results[k] = ConWant(hist.cons[k])
\* ---------------------------------------------------------------- define laws
Rendered == Render(aux.form, aux.n, aux.v, aux.q, aux.pads)
\* every documented form parses to its name and value, and the recogniser knows it
DefineLaw ==
   ph = "render" => LET s == Rendered
                        want == [name |-> aux.n, value |-> RenderValue(aux.form, aux.v)]
                        d == Doc(s)
                    IN ParseDefine(s) = want /\ d.wf /\ d.name = want.name /\ d.value = want.value
\* on every string the recogniser accepts, the parser returns what the recogniser says
DefineAgree ==
   ph = "dstr" => LET d == Doc(txt) p == ParseDefine(txt) IN d.wf => (p.name = d.name /\ p.value = d.value)
\* a bare name means true, and only a text without '=' is a bare name
BareIsTrue ==
   ph = "dstr" /\ ~HasEq(txt) => ParseDefine(txt) = [name |-> Trim(txt), value |-> True4]
\* ---------------------------------------------------------------- path and coupling laws
PathLaw ==
   ph = "path" => LET c == [abs |-> TRUE, segs |-> aux.cwd] IN
                  Lands(c, FilePath(aux.d, aux.p)) = Required(c, aux.d, aux.p)
CoupleLaw ==
   ph = "couple" => LET r == Couple(aux.nf, aux.no) IN
                    /\ Len(r) = IF aux.nf = 0 THEN aux.no ELSE aux.nf
                    /\ \A k \in DOMAIN r : k <= aux.no => r[k] = [auto |-> FALSE, ix |-> k]    \* named ones keep place and order
\* what one key resolves to does not depend on what the key of the other case is assigned
KeysAreCaseSensitive ==
   ph = "keys" => \A k \in 1..2 : \A g \in [1..2 -> Assigns], h \in [1..2 -> Assigns] :
                     (g[k] = aux.fa[k] /\ h[k] = aux.ca[k]) => KeysResolve(g, h)[k] = KeysResolve(aux.fa, aux.ca)[k]
\* a value-less colour switch sets the colour and leaves every other option of the command line as it was
ColourSwitchIsLocal ==
   ph = "argv" => LET with == InsertAt(aux.argv, aux.pos, BareColor) IN
                  /\ CmdOf(with, "color") = "const"
                  /\ \A o \in {"o1", "o2"} : CmdOf(with, o) = CmdOf(aux.argv, o)
\* ---------------------------------------------------------------- getter laws
GetterLaw ==
   ph \in {"gstr", "gword"} =>
      /\ IntParse(txt).ok => FloatParse(txt).ok
      /\ (BoolParse(txt).ok /\ IntParse(txt).ok) => (BoolParse(txt).b = (IntParse(txt).mag = 1))
\* whatever was asked before on the same object, a call answers as a first call on the original text
GetterHistory ==
   ph = "gseq" => /\ gh.store = txt
                  /\ \A k \in DOMAIN gh.outs : gh.outs[k] = Outcome(gh.calls[k], txt)

\* ---------------------------------------------------------------- emission
Emit ==
   /\ ph = "dstr"   => PrintT(<<"CASE", ToJson([k |-> "define", text |-> txt, wf |-> Doc(txt).wf])>>)
   /\ ph = "render" => PrintT(<<"CASE", ToJson([k |-> "render", text |-> Rendered, form |-> aux.form])>>)
   /\ ph \in {"gstr", "gword"} => PrintT(<<"CASE", ToJson([k |-> "getter", text |-> txt])>>)
   /\ ph = "layer" /\ lay.pc = 0 =>
         PrintT(<<"CASE", ToJson([k |-> "layer", okind |-> lay.kind, files |-> lay.files, cmd |-> lay.cmd,
                                  mfiles |-> lay.mfiles, mcmd |-> lay.mcmd, hasmode |-> lay.hasmode,
                                  pred |-> LayerRun(lay).store])>>)
   /\ ph = "hist" /\ hist.k = 1 /\ hist.cur.pc = 0 =>
         PrintT(<<"CASE", ToJson([k |-> "hist", okind |-> hist.cons[1].kind, cons |-> hist.cons])>>)
   /\ ph = "gseq" /\ gh.k = 1 => PrintT(<<"CASE", ToJson([k |-> "gseq", text |-> txt, calls |-> gh.calls])>>)
   /\ ph = "path"   => PrintT(<<"CASE", ToJson([k |-> "path", cwd |-> aux.cwd, d |-> aux.d, p |-> aux.p])>>)
   /\ ph = "keys"   => PrintT(<<"CASE", ToJson([k |-> "keys", fa |-> aux.fa, ca |-> aux.ca])>>)
   /\ ph = "argv"   => PrintT(<<"CASE", ToJson([k |-> "argv", argv |-> aux.argv, pos |-> aux.pos,
                                                   o1 |-> CmdOf(aux.argv, "o1"), o2 |-> CmdOf(aux.argv, "o2")])>>)
   /\ ph = "couple" => PrintT(<<"CASE", ToJson([k |-> "couple", nf |-> aux.nf, no |-> aux.no])>>)
=============================================================================
