----------------------------- MODULE Status_MC -----------------------------
(* Design-level check of the C03 status algebra and emission of every case  *)
(* for replay on real model objects: one state per (kind, child-status      *)
(* tuple, hookFailed) for ALL tuples up to MaxLen over ALL 16 members of the *)
(* enumeration per container kind.  The cases are spread over one bucket     *)
(* state per (kind, first child) so that the TLC workers share them.         *)
EXTENDS Status, TLC, Json
CONSTANTS MaxLen,       \* longest child tuple
          HookMaxLen    \* tuples up to this length are also taken with hookFailed = TRUE (one-branch shortcut)

VARIABLES ph, kind, cs, hf
vars == <<ph, kind, cs, hf>>
Rest == UNION {[1..n -> AllStatus] : n \in 0..(MaxLen - 1)}

Init == ph = "start" /\ kind = "scenario" /\ cs = <<>> /\ hf = FALSE
Next == \/ /\ ph = "start" /\ ph' = "bucket" /\ hf' = FALSE
           /\ kind' \in Kinds /\ \E s \in AllStatus : cs' = <<s>>
        \/ /\ ph = "bucket" /\ ph' = "case" /\ kind' = kind
           /\ \E r \in Rest : cs' = cs \o r
           /\ hf' \in (IF kind # "outline" /\ Len(cs') <= HookMaxLen THEN BOOLEAN ELSE {FALSE})
Spec == Init /\ [][Next]_vars

OnCase(P) == ph = "case" => P
Result == Code(kind, cs, hf)

\* every reportable status is exactly one of passed-like, failure, error, skipped, untested (as coded), the
\* documented members are in their documented class
Partition == ph = "start" => \A s \in AllStatus : PartitionOK(s, Classes(s), HasFailed(s))
\* the code stays inside the documented relation -- except for the named families of known deviations
CodeWithinDoc == OnCase(Judged(kind, cs) =>
                           \/ Result \in DocAllows(kind, cs, hf)
                           \/ KF_C03_outline_untested(kind, cs, Result)
                           \/ KF_C03_skipstep(kind, cs, Result)
                           \/ KF_C03_order(kind, cs, hf, Result))
\* the same without the exceptions (used by the cfg *_strict to show that TLC finds the deviations itself)
CodeWithinDocStrict == OnCase(Judged(kind, cs) => Result \in DocAllows(kind, cs, hf))
\* the relation is never empty and never allows "passed" for an element none of whose contents was executed
DocSane == OnCase(Judged(kind, cs) =>
                     /\ DocAllows(kind, cs, hf) # {}
                     /\ ((\A x \in Range(cs) : DSkipped(x) \/ DUntested(x)) => "passed" \notin DocAllows(kind, cs, hf)))
\* compute_status never raises on documented children
NoCrashOnDocumented == OnCase(Judged(kind, cs) => ~IsExc(Result))

Emit == /\ (ph = "start" => PrintT(<<"META", ToJson([members |-> AllStatus, transient |-> Transient,
                                                        classes |-> [s \in AllStatus |-> Classes(s)],
                                                        final |-> {s \in AllStatus : IsFinal(s)}])>>))
        /\ OnCase(PrintT(<<"CASE", ToJson([kind |-> kind, cs |-> cs, hf |-> hf, code |-> Result,
                                           judged |-> Judged(kind, cs),
                                           family |-> IF Judged(kind, cs) THEN Family(kind, cs, hf, Result)
                                                      ELSE ForeignInfo(kind, cs, hf, Result)])>>))
=============================================================================
