------------------------------ MODULE TagExpr ------------------------------
(***************************************************************************)
(* Tag expressions v2 of behave (C07): definitional semantics (trees,      *)
(* Eval, Glob) next to the algorithm the code uses (text normalisation of  *)
(* behave.tag_expression.builder, the cucumber tokenizer, the shunting     *)
(* yard of TagExpressionParser.parse, the operand factory choosing Matcher *)
(* for wildcard text, and the printer And/Or.__str__, patched              *)
(* Not.__str__, Literal escaping).                                         *)
(*                                                                         *)
(* Texts are sequences of one-character strings (TLC strings are atomic).  *)
(* Pure definitions only; TagExpr_MC composes them into a state space and  *)
(* TagExpr_Trace judges rows recorded from the real make_tag_expression(). *)
(***************************************************************************)
EXTENDS Naturals, Sequences, FiniteSets

\* ---------------------------------------------------------------- trees
TrueT      == [op |-> "true", name |-> <<>>, kids |-> <<>>]
Lit(n)     == [op |-> "lit",  name |-> n,    kids |-> <<>>]
Not(t)     == [op |-> "not",  name |-> <<>>, kids |-> <<t>>]
Bin(o,l,r) == [op |-> o,      name |-> <<>>, kids |-> <<l, r>>]

\* ---------------------------------------------------------------- glob = fnmatchcase
\* p, s : sequences of characters.  Character classes [abc] and [!abc] as in fnmatch.translate:
\* a '[' without closing ']' is a literal '['.
ClassEnd(p) ==  \* index of the closing ']' of the class opened at p[1] = "[", 0 if none
   LET start == IF Len(p) >= 2 /\ p[2] = "!" THEN 3 ELSE 2
       \* a ']' directly after '[' or '[!' is a member, not the end
       from  == IF Len(p) >= start /\ p[start] = "]" THEN start + 1 ELSE start
       cands == {k \in from..Len(p) : p[k] = "]"}
   IN IF cands = {} THEN 0 ELSE CHOOSE k \in cands : \A j \in cands : k <= j
RECURSIVE Glob(_,_)
Glob(p, s) ==
   IF p = <<>> THEN s = <<>>
   ELSE IF Head(p) = "*" THEN Glob(Tail(p), s) \/ (s # <<>> /\ Glob(p, Tail(s)))
   ELSE IF Head(p) = "?" THEN s # <<>> /\ Glob(Tail(p), Tail(s))
   ELSE IF Head(p) = "[" /\ ClassEnd(p) # 0 THEN
        LET e   == ClassEnd(p)
            neg == p[2] = "!"
            mem == {p[k] : k \in (IF neg THEN 3 ELSE 2)..(e - 1)}
        IN s # <<>> /\ ((Head(s) \in mem) # neg) /\ Glob(SubSeq(p, e + 1, Len(p)), Tail(s))
   ELSE s # <<>> /\ Head(s) = Head(p) /\ Glob(Tail(p), Tail(s))

\* glob.has_magic: any of * ? [
HasMagic(n) == \E k \in DOMAIN n : n[k] \in {"*", "?", "["}

\* ---------------------------------------------------------------- meaning
RECURSIVE Eval(_,_)
Eval(t, tags) ==
   CASE t.op = "true" -> TRUE
     [] t.op = "lit"  -> IF HasMagic(t.name) THEN \E g \in tags : Glob(t.name, g)   \* Matcher
                                             ELSE t.name \in tags                  \* Literal
     [] t.op = "not"  -> ~Eval(t.kids[1], tags)
     [] t.op = "and"  -> Eval(t.kids[1], tags) /\ Eval(t.kids[2], tags)
     [] t.op = "or"   -> Eval(t.kids[1], tags) \/ Eval(t.kids[2], tags)

\* the k-th subset (k in 0..2^n-1) of the universe U (a sequence of tags): bit i-1 of k selects U[i]
RECURSIVE Pow2(_)
Pow2(n) == IF n = 0 THEN 1 ELSE 2 * Pow2(n - 1)
SubsetNo(U, k) == {U[i] : i \in {j \in DOMAIN U : (k \div Pow2(j - 1)) % 2 = 1}}
SubsetSeq(U) == [k \in 1..Pow2(Len(U)) |-> SubsetNo(U, k - 1)]
\* SS: a subset sequence (pass a constant-level definition so that TLC computes it once)
TruthTable(t, SS) == [k \in DOMAIN SS |-> Eval(t, SS[k])]

\* ---------------------------------------------------------------- tokens
Tok(s)   == [k |-> s, name |-> <<>>]
OpTok(n) == [k |-> "operand", name |-> n]
Chars(tok) == CASE tok.k = "operand" -> tok.name
                [] tok.k = "and" -> <<"a","n","d">>
                [] tok.k = "or"  -> <<"o","r">>
                [] tok.k = "not" -> <<"n","o","t">>
                [] OTHER -> <<tok.k>>
Keyword(w) == CASE w = <<"a","n","d">> -> "and" [] w = <<"o","r">> -> "or" [] w = <<"n","o","t">> -> "not"
                [] w = <<"(">> -> "(" [] w = <<")">> -> ")" [] OTHER -> "operand"
MkTok(w) == IF Keyword(w) = "operand" THEN OpTok(w) ELSE Tok(Keyword(w))

\* ---------------------------------------------------------------- behave's normalisation + cucumber's tokenizer
RECURSIVE DropAt(_)
DropAt(s) == IF s = <<>> THEN <<>> ELSE IF Head(s) = "@" THEN DropAt(Tail(s)) ELSE <<Head(s)>> \o DropAt(Tail(s))
\* text.replace("  ", " "): one left-to-right pass over non-overlapping pairs
RECURSIVE SquashOnce(_)
SquashOnce(s) == IF Len(s) < 2 THEN s
                 ELSE IF s[1] = " " /\ s[2] = " " THEN <<" ">> \o SquashOnce(SubSeq(s, 3, Len(s)))
                 ELSE <<s[1]>> \o SquashOnce(Tail(s))
Normalize(s) == SquashOnce(DropAt(s))

\* tokenize(): returns [err, toks]; st = [toks, cur, esc, err]
IsSpace(c) == c \in {" ", "\t", "\n"}
TokStep(st, c) ==
   IF st.err THEN st
   ELSE IF st.esc THEN
        (IF c \notin {"(", ")", "\\"} /\ ~IsSpace(c) THEN [st EXCEPT !.err = TRUE]
         ELSE [st EXCEPT !.cur = Append(st.cur, c), !.esc = FALSE])
   ELSE IF c = "\\" THEN [st EXCEPT !.esc = TRUE]
   ELSE IF c \in {"(", ")"} \/ IsSpace(c) THEN
        LET flushed == IF st.cur # <<>> THEN Append(st.toks, MkTok(st.cur)) ELSE st.toks
            withc   == IF c # " " THEN Append(flushed, MkTok(<<c>>)) ELSE flushed
        IN [st EXCEPT !.toks = withc, !.cur = <<>>]
   ELSE [st EXCEPT !.cur = Append(st.cur, c)]
RECURSIVE TokRun(_,_,_)
TokRun(st, s, i) == IF i > Len(s) THEN st ELSE TokRun(TokStep(st, s[i]), s, i + 1)
Tokenize(s) ==
   \* NOTE the code looks every part up in TOKEN_MAP whether or not it was written with escapes
   LET st == TokRun([toks |-> <<>>, cur |-> <<>>, esc |-> FALSE, err |-> FALSE], s, 1)
   IN [err  |-> st.err,
       toks |-> IF st.cur # <<>> THEN Append(st.toks, MkTok(st.cur)) ELSE st.toks]

\* ---------------------------------------------------------------- shunting yard (TagExpressionParser.parse)
Prec(o) == CASE o = "or" -> 0 [] o = "and" -> 1 [] o = "not" -> 2 [] OTHER -> 3
IsOperation(k) == k \in {"and", "or", "not"}
\* token.has_lower_precedence_than(top): and/or are left-associative, not is right-associative
LowerPrec(tok, top) == IF tok = "not" THEN Prec(tok) < Prec(top) ELSE Prec(tok) <= Prec(top)
PushExpr(op, exprs) ==
   IF op = "not" THEN (IF Len(exprs) < 1 THEN [ok |-> FALSE, exprs |-> exprs]
                       ELSE [ok |-> TRUE, exprs |-> Append(SubSeq(exprs, 1, Len(exprs) - 1), Not(exprs[Len(exprs)]))])
   ELSE IF Len(exprs) < 2 THEN [ok |-> FALSE, exprs |-> exprs]
   ELSE [ok |-> TRUE, exprs |-> Append(SubSeq(exprs, 1, Len(exprs) - 2), Bin(op, exprs[Len(exprs) - 1], exprs[Len(exprs)]))]
RECURSIVE Unwind(_,_,_)
Unwind(st, mode, tok) ==
   IF st.ops = <<>> THEN st
   ELSE LET top == st.ops[Len(st.ops)] IN
        IF \/ mode = "prec"  /\ IsOperation(top) /\ LowerPrec(tok, top)
           \/ mode = "paren" /\ top # "("
           \/ mode = "all"   /\ top # "("
        THEN LET r == PushExpr(top, st.exprs) IN
             IF ~r.ok THEN [st EXCEPT !.err = TRUE]
             ELSE Unwind([st EXCEPT !.ops = SubSeq(st.ops, 1, Len(st.ops) - 1), !.exprs = r.exprs], mode, tok)
        ELSE st
SYStep(st, t) ==
   IF st.err THEN st
   ELSE CASE t.k = "operand" -> IF st.expect # "operand" THEN [st EXCEPT !.err = TRUE]
                                ELSE [st EXCEPT !.exprs = Append(st.exprs, Lit(t.name)), !.expect = "operator"]
          [] t.k = "not"     -> IF st.expect # "operand" THEN [st EXCEPT !.err = TRUE]
                                ELSE [st EXCEPT !.ops = Append(st.ops, "not")]
          [] t.k \in {"and", "or"} ->
                                IF st.expect # "operator" THEN [st EXCEPT !.err = TRUE]
                                ELSE LET u == Unwind(st, "prec", t.k) IN
                                     [u EXCEPT !.ops = Append(u.ops, t.k), !.expect = "operand"]
          [] t.k = "("       -> IF st.expect # "operand" THEN [st EXCEPT !.err = TRUE]
                                ELSE [st EXCEPT !.ops = Append(st.ops, "(")]
          [] t.k = ")"       -> IF st.expect # "operator" THEN [st EXCEPT !.err = TRUE]
                                ELSE LET u == Unwind(st, "paren", ")") IN
                                     IF u.err \/ u.ops = <<>> THEN [u EXCEPT !.err = TRUE]
                                     ELSE [u EXCEPT !.ops = SubSeq(u.ops, 1, Len(u.ops) - 1), !.expect = "operator"]
RECURSIVE SYRun(_,_,_)
SYRun(st, toks, i) == IF i > Len(toks) THEN st ELSE SYRun(SYStep(st, toks[i]), toks, i + 1)
ParseToks(toks) ==
   IF toks = <<>> THEN [ok |-> TRUE, tree |-> TrueT]
   ELSE LET s0 == [ops |-> <<>>, exprs |-> <<>>, expect |-> "operand", err |-> FALSE]
            s1 == SYRun(s0, toks, 1)
            s2 == IF s1.err THEN s1 ELSE Unwind(s1, "all", "")
        IN IF s2.err \/ s2.ops # <<>> \/ Len(s2.exprs) # 1 THEN [ok |-> FALSE, tree |-> TrueT]
           ELSE [ok |-> TRUE, tree |-> s2.exprs[1]]

\* make_tag_expression(text, V2) on a string
ParseText(s) == LET tk == Tokenize(Normalize(s)) IN
                IF tk.err THEN [ok |-> FALSE, tree |-> TrueT] ELSE ParseToks(tk.toks)
\* ... on a list of strings: "(" term ")" joined with " and "
RECURSIVE JoinTerms(_)
JoinTerms(terms) == IF terms = <<>> THEN <<>>
                    ELSE <<"(">> \o Head(terms) \o <<")">> \o
                         (IF Len(terms) > 1 THEN <<" ","a","n","d"," ">> \o JoinTerms(Tail(terms)) ELSE <<>>)
ParseList(terms) == ParseText(JoinTerms(terms))

\* ---------------------------------------------------------------- printer: str(expression)
RECURSIVE EscapeName(_)
EscapeName(n) == IF n = <<>> THEN <<>>
                 ELSE (IF Head(n) \in {"\\", "(", ")", " "} THEN <<"\\", Head(n)>> ELSE <<Head(n)>>) \o EscapeName(Tail(n))
RECURSIVE Str(_)
Str(t) == CASE t.op = "true" -> <<>>
            [] t.op = "lit"  -> IF HasMagic(t.name) THEN t.name ELSE EscapeName(t.name)
            [] t.op = "not"  -> IF t.kids[1].op \in {"and", "or"} THEN <<"n","o","t"," ">> \o Str(t.kids[1])
                                ELSE <<"n","o","t"," ","("," ">> \o Str(t.kids[1]) \o <<" ",")">>
            [] OTHER -> <<"("," ">> \o Str(t.kids[1]) \o <<" ">> \o Chars(Tok(t.op)) \o <<" ">> \o Str(t.kids[2]) \o <<" ",")">>

\* ---------------------------------------------------------------- renderings of a tree (texts)
Sp == <<" ">>
RECURSIVE JoinSp(_)
JoinSp(ws) == IF ws = <<>> THEN <<>> ELSE IF Len(ws) = 1 THEN ws[1] ELSE ws[1] \o Sp \o JoinSp(Tail(ws))
Paren(x) == <<"(">> \o x \o <<")">>
RECURSIVE Full(_)    \* every operator application parenthesised
Full(t) == CASE t.op = "lit" -> t.name
             [] t.op = "not" -> <<"n","o","t"," ">> \o Paren(Full(t.kids[1]))
             [] OTHER -> Paren(Full(t.kids[1]) \o Sp \o Chars(Tok(t.op)) \o Sp \o Full(t.kids[2]))
RECURSIVE Min(_)     \* minimal parentheses w.r.t. precedence not > and > or, left-associative
Min(t) == CASE t.op = "lit" -> t.name
            [] t.op = "not" -> <<"n","o","t"," ">> \o (IF t.kids[1].op \in {"lit", "not"} THEN Min(t.kids[1]) ELSE Paren(Min(t.kids[1])))
            [] OTHER -> LET l == t.kids[1]  r == t.kids[2]
                            ls == IF Prec(l.op) < Prec(t.op) THEN Paren(Min(l)) ELSE Min(l)
                            rs == IF Prec(r.op) <= Prec(t.op) THEN Paren(Min(r)) ELSE Min(r)
                        IN ls \o Sp \o Chars(Tok(t.op)) \o Sp \o rs
RECURSIVE Leafy(_)   \* like Min, but every operand is wrapped in parentheses of its own: (a) or (b)
Leafy(t) == CASE t.op = "lit" -> Paren(t.name)
              [] t.op = "not" -> <<"n","o","t"," ">> \o (IF t.kids[1].op \in {"lit", "not"} THEN Leafy(t.kids[1]) ELSE Paren(Leafy(t.kids[1])))
              [] OTHER -> LET l == t.kids[1]  r == t.kids[2]
                              ls == IF Prec(l.op) < Prec(t.op) THEN Paren(Leafy(l)) ELSE Leafy(l)
                              rs == IF Prec(r.op) <= Prec(t.op) THEN Paren(Leafy(r)) ELSE Leafy(r)
                          IN ls \o Sp \o Chars(Tok(t.op)) \o Sp \o rs
RECURSIVE WithAt(_)  \* every operand decorated with '@', blanks inside parentheses
WithAt(t) == CASE t.op = "lit" -> <<"@">> \o t.name
               [] t.op = "not" -> <<"n","o","t"," ","("," ">> \o WithAt(t.kids[1]) \o <<" ",")">>
               [] OTHER -> <<"("," ">> \o WithAt(t.kids[1]) \o Sp \o Chars(Tok(t.op)) \o Sp \o WithAt(t.kids[2]) \o <<" ",")">>

Same(a, b, SS) == \A k \in DOMAIN SS : Eval(a, SS[k]) = Eval(b, SS[k])
=============================================================================
