INIT Init
NEXT Next
INVARIANT Count
POSTCONDITION Done
