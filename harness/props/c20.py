"""C20 -- configuration precedence (command line > configuration file > default) and user data.

(S) specs/Config.tla   (P)+(MC) specs/Config_MC.tla   judge: specs/Config_Trace.tla

TLC walks the layering state machine Default -> File_1 .. File_n -> CmdLine -> mode switches for every abstract
option kind and proves `store = Resolve(files, cmd)`; it enumerates every -D string of the bound, every rendering of
the documented define forms, every (cwd, file directory, named path) shape, every format/outfiles count pair and
every user data text of the bound, and emits each as a CASE.  This driver maps every *concrete* option of behave's
OPTIONS table that has a configuration-file name to its abstract kind, renders each abstract case into real
configuration files (behave.ini, .behaverc, setup.cfg, tox.ini, pyproject.toml in cwd and in a redirected HOME, at
two directory depths) plus a real argv, constructs Configuration() for real, records the resulting attribute, and
hands the rows to the TLC judge.  Python renders and records; it never decides."""
import io
import json
import logging
import os
import random
import shutil
import sys
import tempfile

from vlib import trace

WORKERS = int(os.environ.get("VERIF_WORKERS") or 8)
MISSING = "<missing>"
NONE = "<none>"

# ------------------------------------------------------------------ documented built-in defaults (docs/behave.rst,
# help texts "This is the default behaviour", "(default: ...)"); used as the `d` value of the judge.
DOC_DEFAULTS = {
    "color": "auto", "dry_run": False, "exclude_re": None, "include_re": None, "junit": False,
    "junit_directory": "reports", "jobs": 1, "default_format": "pretty", "format": [], "steps_catalog": False,
    "scenario_outline_annotation_schema": "{name} -- @{row.id} {examples.name}",
    "show_skipped": True, "show_snippets": True, "show_multiline": True, "name": [], "stdout_capture": True,
    "stderr_capture": True, "log_capture": True, "logging_level": 20,
    "logging_format": "%(levelname)s:%(name)s:%(message)s", "logging_datefmt": None, "logging_filter": None,
    "logging_clear_handlers": False, "summary": True, "outfiles": [], "paths": [],
    "tag_expression_protocol": "auto_detect", "quiet": False, "runner": "behave.runner:Runner", "show_source": True,
    "stage": None, "stop": False, "default_tags": [], "tags": [], "show_timings": True, "verbose": False,
    "wip": False, "lang": None,
}
# (text in an ini file, value in a toml file, text on the command line, projected attribute) for v1 and v2
SCALAR_VALUES = {
    "jobs": [("2", 2, "2", "2"), ("3", "3", "3", "3")],
    "logging_level": [("DEBUG", "DEBUG", "DEBUG", "10"), ("ERROR", "ERROR", "ERROR", "40")],
    "tag_expression_protocol": [("v1", "v1", "v1", "v1"), ("v2", "v2", "v2", "v2")],
    "logging_format": [("LF1 %(message)s",) * 4, ("LF2 %(name)s",) * 4],
    "logging_datefmt": [("DF1 %H",) * 4, ("DF2 %M",) * 4],
    "lang": [("de",) * 4, ("fr",) * 4],
    "stage": [("dev",) * 4, ("prod",) * 4],
    "runner": [("pkg1.mod:RunnerOne",) * 4, ("pkg2.mod:RunnerTwo",) * 4],
    "default_format": [("plain",) * 4, ("json",) * 4],
    "scenario_outline_annotation_schema": [("{name} -- one {row.id}",) * 4, ("{name} -- two {examples.name}",) * 4],
    "logging_filter": [("foo",) * 4, ("bar,-baz",) * 4],
}
LIST_VALUES = {
    "format": {"fv1": ["plain", "json", "progress"], "fv2": ["pretty", "null"], "cv1": ["tags"], "cv2": ["steps", "rerun"]},
    # (entries that contain a comma: one entry per line of the file value, a comma does not separate entries)
    "name": {"fv1": ["Alice, Bob and Charly", "ba{1,2}r", "name_c"], "fv2": ["x,y", "name_x"], "cv1": ["c,1"], "cv2": ["name_c2b", "n, a"]},
    "outfiles": {"fv1": ["o_b.txt", "sub/o_a.txt", "../o_c.txt"], "fv2": ["p,b.out", "p_a.out"],
                 "cv1": ["c1.out"], "cv2": ["c2_b.out", "c2_a.out"]},
    "paths": {"fv1": ["f_b", "sub/f_a", "../f_c"], "fv2": ["g_b", "g_a"], "cv1": ["c1_p"], "cv2": ["c2_b", "c2_a"]},
    "tags": {"fv1": ["@f_b", "@f_a", "@f_c"], "fv2": ["@g_b", "@g_a"], "cv1": ["@c1"], "cv2": ["@c2_b", "@c2_a"]},
}
# which attribute each documented flag sets (docs/behave.rst); a flag unknown here is taken from the table itself
DOCUMENTED_FLAGS = {
    "color": "-C --no-color --color", "dry_run": "-d --dry-run", "exclude_re": "-e --exclude", "include_re": "-i --include",
    "junit": "--no-junit --junit", "junit_directory": "--junit-directory", "jobs": "-j --jobs --parallel", "format": "-f --format",
    "steps_catalog": "--steps-catalog", "show_skipped": "--no-skipped --show-skipped", "show_snippets": "--no-snippets --snippets",
    "show_multiline": "--no-multiline --multiline", "name": "-n --name", "stdout_capture": "--no-capture --capture",
    "stderr_capture": "--no-capture-stderr --capture-stderr", "log_capture": "--no-logcapture --logcapture",
    "logging_level": "--logging-level", "logging_format": "--logging-format", "logging_datefmt": "--logging-datefmt",
    "logging_filter": "--logging-filter", "logging_clear_handlers": "--logging-clear-handlers", "summary": "--no-summary --summary",
    "outfiles": "-o --outfile", "quiet": "-q --quiet", "runner": "-r --runner", "show_source": "--no-source --show-source",
    "stage": "--stage", "stop": "--stop", "tags": "-t --tags", "show_timings": "-T --no-timings --show-timings",
    "verbose": "-v --verbose", "wip": "-w --wip", "lang": "--lang",
}
FLAG_DEST = {flag: dest for dest, flags in DOCUMENTED_FLAGS.items() for flag in flags.split()}
PATHISH = ("junit_directory",)      # a directory name that is NOT among the statement's "paths and output files": basename only
PATHY = ("paths", "outfiles")          # file values are joined to the file's directory: projected to the basename
# mode switches and the values they are documented to force (help texts of --junit, --wip, --quiet, --steps-catalog)
MODES = {
    "junit": {"stdout_capture": True, "stderr_capture": True, "log_capture": True},
    "wip": {"stdout_capture": False, "log_capture": False, "stop": True, "color": "off", "default_format": "plain"},
    "quiet": {"show_source": False, "show_snippets": False},
    "steps_catalog": {"dry_run": True, "summary": False, "show_skipped": False, "quiet": True, "show_source": False,
                      "show_snippets": False, "default_format": "steps.catalog"},
}
RANK = {"pyproject.toml": 0, "tox.ini": 1, "setup.cfg": 2, ".behaverc": 3, "behave.ini": 4}     # low -> high, HOME before cwd
LAYOUTS = {
    0: [[]],
    1: [[("cwd", "behave.ini")], [("cwd", "pyproject.toml")], [("home", "behave.ini")], [("cwd", ".behaverc")],
        [("cwd", "setup.cfg")], [("home", "pyproject.toml")], [("cwd", "tox.ini")], [("home", ".behaverc")]],
    2: [[("home", "behave.ini"), ("cwd", "behave.ini")], [("cwd", "pyproject.toml"), ("cwd", "setup.cfg")],
        [("cwd", "tox.ini"), ("cwd", "behave.ini")], [("home", "pyproject.toml"), ("cwd", ".behaverc")],
        [("home", "tox.ini"), ("home", "setup.cfg")]],
    3: [[("home", "behave.ini"), ("cwd", "pyproject.toml"), ("cwd", "behave.ini")],
        [("cwd", "tox.ini"), ("cwd", "setup.cfg"), ("cwd", ".behaverc")],
        [("home", "pyproject.toml"), ("home", "setup.cfg"), ("cwd", "tox.ini")]],
}
DEPTHS = [{"cwd": ["w"], "home": ["h"]}, {"cwd": ["w", "x", "y"], "home": ["h", "i", "j"]}]
# the run directory lies four levels below the virtual root of the judge's path model, so that no "../.." of the
# enumerated shapes leaves the scratch tree
PREFIX = ["v0", "v1", "v2", "v3"]
TRUE_WORDS = ["true", "yes", "on", "1"]
FALSE_WORDS = ["false", "no", "off", "0"]


def fmt_of(name):
    return "toml" if name.endswith(".toml") else "ini"


def pstr(v):
    import enum
    if v is None:
        return NONE
    if isinstance(v, bool):
        return "True" if v else "False"
    if isinstance(v, int):
        return str(v)
    if isinstance(v, str):
        return v
    if isinstance(v, enum.Enum):
        return v.name.lower()
    if hasattr(v, "pattern"):
        return v.pattern
    return "%s:%r" % (type(v).__name__, v)


def chars(s):
    return list(s)


# ------------------------------------------------------------------ the real option table -> abstract kinds
class Opt(object):
    def __init__(self, dest):
        self.dest = dest
        self.kind = None
        self.islist = False
        self.pathy = dest in PATHY
        self.lower = False
        self.file = {}       # "v1"/"v2" -> {"ini": text|list|bool, "toml": value}
        self.exp = {}        # "fv1","fv2","cv1","cv2" -> projected list of strings
        self.forms = {}      # "v1"/"v2" -> [(form name, argv)]
        self.extra = []      # [(form name, argv, projected value)] further command-line forms (const values)
        self.default = []
        self.derived_default = False
        self.falsy = None    # "falsy"/"empty": file["v0"] is a file value that converts to something falsy / is empty


def value_forms(flags, items):
    """every way to write `flag item` for all items with one flag spelling"""
    out = []
    for f in flags:
        if f.startswith("--"):
            out.append(("long=", [f + "=" + x for x in items]))
            out.append(("long", [y for x in items for y in (f, x)]))
        else:
            out.append(("short", [y for x in items for y in (f, x)]))
            out.append(("short+", [f + x for x in items]))
    return out


def build_options(chk):
    """One Opt per entry of behave's real config-file schema (configfile_options_iter over OPTIONS)."""
    from behave import configuration as C
    by_dest = {}
    for fixed, kw in C.OPTIONS:
        dest = kw.get("dest") or C.derive_dest_from_long_option(fixed)
        documented = [FLAG_DEST[f] for f in fixed if f in FLAG_DEST]
        if documented and documented[0] != dest:
            chk.note("flag %s is documented to set %s, the table says %s: judged as documented" % (fixed[-1], documented[0], dest))
            dest = documented[0]
        by_dest.setdefault(dest, []).append((tuple(fixed), dict(kw)))
    opts = []
    names = [cfo.dest for cfo in C.configfile_options_iter(None)]
    for dest in DOC_DEFAULTS:          # a documented configuration parameter stays under test even if the schema lost it
        if dest not in names:
            chk.note("documented configuration parameter %s is not in behave's config-file schema any more" % dest)
            names.append(dest)
    for dest in names:
        o = Opt(dest)
        entries = by_dest.get(dest)
        if not entries:
            if dest not in DOC_DEFAULTS:
                chk.note("config-file option %s has no entry of its own in OPTIONS: skipped" % dest)
                continue
            d = DOC_DEFAULTS[dest]
            entries = [((), {"action": "store_true" if isinstance(d, bool) else ("append" if isinstance(d, list) else "store")})]
        by_action = {}
        for fixed, kw in entries:
            by_action.setdefault(kw.get("action", "store"), []).append((fixed, kw))
        flags = lambda action: [f for fixed, _ in by_action.get(action, []) for f in fixed]
        if "store_true" in by_action or "store_false" in by_action:
            # polarity comes from the spelling (--no-x and its short alias mean "false"), not from the action
            booleans = by_action.get("store_true", []) + by_action.get("store_false", [])
            negated = lambda fixed: any(w.startswith("--no-") for w in fixed)
            pos = [f for fixed, _ in booleans if not negated(fixed) for f in fixed]
            neg = [f for fixed, _ in booleans if negated(fixed) for f in fixed]
            o.kind = "boolpair" if neg else "boolflag"
            o.file = {"v1": {"ini": True, "toml": True}, "v2": {"ini": False, "toml": False}}
            o.exp = {"fv1": ["True"], "fv2": ["False"], "cv1": ["True"], "cv2": ["False"]}
            o.forms = {"v1": [("flag", [f]) for f in pos], "v2": [("flag", [f]) for f in neg]}
        elif "append" in by_action:
            fl = flags("append")
            o.islist = True
            o.kind = "tags" if o.dest == "tags" else ("append" if fl else ("paths" if o.dest == "paths" else "fileappend"))
            lv = LIST_VALUES.get(o.dest) or {"fv1": [o.dest + "_b", o.dest + "_a", o.dest + "_c"], "fv2": [o.dest + "_y", o.dest + "_x"],
                                             "cv1": [o.dest + "_c1"], "cv2": [o.dest + "_c2b", o.dest + "_c2a"]}
            for k, v in (("v1", "fv1"), ("v2", "fv2")):
                o.file[k] = {"ini": list(lv[v]), "toml": list(lv[v])}
            o.exp = {k: [os.path.basename(x) if o.pathy else x for x in v] for k, v in lv.items()}
            if o.kind == "paths":
                o.forms = {"v1": [("positional", list(lv["cv1"]))], "v2": [("positional", list(lv["cv2"]))]}
            elif fl:
                o.forms = {"v1": value_forms(fl, lv["cv1"]), "v2": value_forms(fl, lv["cv2"])}
        else:
            fixed, kw = by_action["store"][0]
            fl = list(fixed)
            if kw.get("choices") and o.dest not in SCALAR_VALUES:
                pool = [c for c in kw["choices"] if c != kw.get("default")][:2]
                vs = [(c, c, c, c) for c in pool]
            else:
                vs = SCALAR_VALUES.get(o.dest)
            if vs is None and kw.get("type"):
                vs = derive_typed_values(kw["type"], chk, o.dest)
            if vs is None:
                vs = [(o.dest + "_one",) * 4, (o.dest + "_two",) * 4]
            o.kind = "fileonly" if not fl else ("choice" if kw.get("choices") else ("typed" if kw.get("type") else "scalar"))
            o.lower = o.dest == "tag_expression_protocol"
            for k, (ini, toml, cmd, exp) in zip(("v1", "v2"), vs):
                o.file[k] = {"ini": ini, "toml": toml}
                o.exp["f" + k] = [exp]
                o.exp["c" + k] = [exp]
                o.forms[k] = value_forms(fl, [cmd])
            # a file value whose CONVERTED value is falsy (0, NOTSET -> 0) or, for text options, empty ("name ="):
            # the file mentions the option, so this is the value that counts.  The unchanged code stores an empty
            # text value as "" like any other text (nothing special), that is what `fv2` then stands for.
            conv = kw.get("type")
            if conv is None:
                o.file["v0"], o.exp["fv0"], o.falsy = {"ini": "", "toml": ""}, [""], "empty"
            else:
                for text, native in (("0", 0), ("NOTSET", "NOTSET"), ("0.0", 0.0)):
                    try:
                        got = conv(text)
                    except Exception:
                        continue
                    if not got:
                        o.file["v0"], o.exp["fv0"], o.falsy = {"ini": text, "toml": native}, [pstr(got)], "falsy"
                        break
            if kw.get("nargs") == "?" and "const" in kw:
                # --color without a value: as last argument, before another option, before an existing path
                o.extra.append(("bare-last", [fl[0]], pstr(kw["const"])))
                o.extra.append(("bare-then-option", [fl[0], "--stop"], pstr(kw["const"])))
                o.extra.append(("bare-then-path", [fl[0], "@existing_dir"], pstr(kw["const"])))
            for cfixed, ckw in by_action.get("store_const", []):
                for f in cfixed:
                    o.extra.append(("const", [f], pstr(ckw.get("const"))))
        o.forms = {k: v for k, v in o.forms.items() if v}
        if o.dest in DOC_DEFAULTS:
            d = DOC_DEFAULTS[o.dest]
            if o.dest == "color" and os.environ.get("BEHAVE_COLOR"):
                d = os.environ["BEHAVE_COLOR"]
        else:   # an option this check has no documented default for: fall back to the table itself (weaker)
            o.derived_default = True
            d = C.Configuration.defaults.get(o.dest, entries[0][1].get("default", False if o.kind == "boolflag" else None))
            chk.note("option %s is not in the driver's table of documented defaults; default taken from the code" % o.dest)
        o.default = [pstr(x) for x in (d or [])] if o.islist else [pstr(d)]
        opts.append(o)
    return opts


def derive_typed_values(conv, chk, dest):
    for a, b in (("2", "3"), ("v1", "v2"), ("DEBUG", "ERROR"), ("one", "two")):
        try:
            return [(a, a, a, pstr(conv(a))), (b, b, b, pstr(conv(b)))]
        except Exception:
            continue
    return None


# ------------------------------------------------------------------ rendering configuration files
def render_path(p, vroot):
    if p["abs"]:       # absolute paths of the abstract cases live below the run directory
        return vroot + "/" + "/".join(PREFIX + p["segs"])
    return "/".join(p["segs"])


def render_value(v, vroot):
    if isinstance(v, dict):
        return render_path(v, vroot)
    if isinstance(v, list):
        return [render_value(x, vroot) for x in v]
    return v


def render_file(entry, vroot):
    fmt = fmt_of(entry["name"])
    bw = entry.get("bw", 0)
    lines = []
    if fmt == "ini":
        lines.append("[behave]")
        for dest, val in entry["behave"]:
            val = render_value(val, vroot)
            if isinstance(val, bool):
                val = (TRUE_WORDS if val else FALSE_WORDS)[bw % 4]
            if isinstance(val, list):
                lines.append("%s = %s" % (dest, val[0] if val else ""))
                lines.extend("    " + x for x in val[1:])
            else:
                lines.append("%s = %s" % (dest, val))
        if entry.get("userdata") is not None:
            lines.append("[behave.userdata]")
            lines.extend("%s = %s" % (n, v) for n, v in entry["userdata"])
    else:
        lines.append("[tool.behave]")
        for dest, val in entry["behave"]:
            lines.append("%s = %s" % (dest, json.dumps(render_value(val, vroot))))
        if entry.get("userdata") is not None:
            lines.append("[tool.behave.userdata]")
            # quoted key: a dot in a bare toml key would open a sub-table
            lines.extend("%s = %s" % (json.dumps(n), json.dumps(v)) for n, v in entry["userdata"])
    return "\n".join(lines) + "\n"


def vpath(s, vroot):
    """a path string as the judge's [abs, segs] below the virtual root (= the scratch directory of the run)"""
    a = s.startswith("/")
    if a:
        s = s[len(vroot):] if (s == vroot or s.startswith(vroot + "/")) else "/<outside>" + s
    return {"abs": a, "segs": [x for x in s.split("/") if x != ""]}


# ------------------------------------------------------------------ running the real code in a sandbox
class Globals(object):
    """everything Configuration() may touch outside its own object"""

    def __enter__(self):
        from behave.configuration import Configuration
        from behave.tag_expression import TagExpressionProtocol
        from behave.model import ScenarioOutline
        root = logging.getLogger()
        self.saved = dict(cwd=os.getcwd(), home=os.environ.get("HOME"), stage=os.environ.get("BEHAVE_STAGE"),
                          stdout=sys.stdout, stderr=sys.stderr, path=list(sys.path), level=root.level,
                          handlers=list(root.handlers), protocol=TagExpressionProtocol.current(),
                          schema=ScenarioOutline.annotation_schema)
        os.environ.pop("BEHAVE_STAGE", None)
        return self

    def __exit__(self, *exc):
        from behave.configuration import Configuration
        from behave.tag_expression import TagExpressionProtocol
        from behave.model import ScenarioOutline
        s = self.saved
        sys.stdout, sys.stderr = s["stdout"], s["stderr"]
        os.chdir(s["cwd"])
        for key, val in (("HOME", s["home"]), ("BEHAVE_STAGE", s["stage"])):
            if val is None:
                os.environ.pop(key, None)
            else:
                os.environ[key] = val
        sys.path[:] = s["path"]
        root = logging.getLogger()
        root.setLevel(s["level"])
        root.handlers[:] = s["handlers"]
        TagExpressionProtocol.use(s["protocol"])
        ScenarioOutline.annotation_schema = s["schema"]
        return False


class ClassDefaults(object):
    """The class-level Configuration.defaults is part of what is under test (a construction must not write into it):
    it is NOT restored between experiments, only once when the whole check is over."""

    def __enter__(self):
        from behave.configuration import Configuration
        self.saved = dict(Configuration.defaults)
        self.userdata = dict(Configuration.defaults.get("userdata") or {})
        return self

    def __exit__(self, *exc):
        from behave.configuration import Configuration
        Configuration.defaults.clear()
        Configuration.defaults.update(self.saved)
        if "userdata" in self.saved:
            Configuration.defaults["userdata"] = self.userdata
        return False


def steps_of(spec):
    return spec["steps"] if "steps" in spec else [spec]


def exec_spec(spec, root):
    """Run one experiment for real; returns its rows (without ids).  A spec with "steps" is a history: its
    constructions happen one after the other in this process, each with its own files, which are removed again."""
    t = spec["type"]
    if t == "define":
        return [observe_define_direct(spec["text"])]
    if t == "getter":
        return [observe_getter(spec)]
    if t == "gseq":
        return [observe_getter_seq(spec)]
    rows = []
    try:
        for step in steps_of(spec):
            rows.extend(exec_step(t, step, root))
    finally:
        while _KEPT:        # files a step left in place for the next construction of its history
            try:
                os.unlink(_KEPT.pop())
            except OSError:
                pass
    return rows


_KEPT = []


def exec_step(t, spec, root):
    vroot = root
    written = []
    with Globals():
        try:
            cwd = os.path.join(vroot, *(PREFIX + spec["layout"]["cwd"]))
            home = os.path.join(vroot, *(PREFIX + spec["layout"]["home"]))
            os.makedirs(cwd, exist_ok=True)     # directories are kept between runs (rmdir is slow here), files are not
            os.makedirs(home, exist_ok=True)
            for entry in spec["files"]:
                base = cwd if entry["where"] == "cwd" else home
                d = os.path.normpath(os.path.join(base, *entry.get("dir", [])))
                os.makedirs(d, exist_ok=True)
                written.append(os.path.join(d, entry["name"]))
                with open(written[-1], "w") as fh:
                    fh.write(render_file(entry, vroot))
            for d in spec.get("mkdirs", []):
                os.makedirs(os.path.join(cwd, d), exist_ok=True)
            os.environ["HOME"] = home
            os.chdir(cwd)
            sys.stdout, sys.stderr = io.StringIO(), io.StringIO()
            result, exc = None, ""
            try:
                if t == "config":
                    from behave.configuration import Configuration
                    if spec.get("load_config", True):
                        result = Configuration(command_args=list(spec["argv"]))
                    else:
                        result = Configuration(command_args=list(spec["argv"]), load_config=False)
                    if spec.get("post"):      # environment.py style late user data; -D must be re-applied on top
                        result.update_userdata(dict(spec["post"]["update_userdata"]))
                else:   # "readcfg": the public reader of one configuration file, called with a path at some depth
                    from behave.configuration import read_configuration
                    result = read_configuration(render_path(spec["path"], vroot))
            except KeyboardInterrupt:
                raise
            except BaseException as e:        # SystemExit from argparse included
                exc = type(e).__name__
            get = (lambda k: getattr(result, k, None)) if t == "config" else (lambda k: (result or {}).get(k))
            return [observe_probe(p, result, exc, get, vroot, spec) for p in spec["probes"]]
        finally:
            os.chdir(root)
            if spec.get("keep"):        # the next construction of the history reads the very same, untouched files
                _KEPT.extend(written)
                written = []
            for path in written:
                try:
                    os.unlink(path)
                except OSError:
                    pass


def observe_probe(p, result, exc, get, vroot, spec):
    k = p["row"]
    if k == "layer":
        row = {"kind": "layer", "okind": p["okind"], "files": p["files"], "cmd": p["cmd"], "mfiles": p["mfiles"],
               "mcmd": p["mcmd"], "hasmode": p["hasmode"], "mobs": False, "islist": p["islist"], "vals": p["vals"],
               "obs": [], "exc": exc}
        if exc:
            return row
        if p["okind"] in ("userdata", "udupdate"):
            ud = get("userdata")
            if p.get("via") == "getint":        # observed through the typed getter, with a default that is no value
                sentinel = object()
                try:
                    got = ud.getint(p["name"], sentinel)
                    row["obs"] = [MISSING if got is sentinel else pstr(got)]
                except Exception as e:
                    row["exc"] = type(e).__name__
            else:
                row["obs"] = [pstr(ud[p["name"]]) if p["name"] in ud else MISSING]
            return row
        v = getattr(result, p["dest"], "<no-attribute>")
        if p["islist"]:
            items = [] if (v is None or v == "") else ([v] if isinstance(v, str) else [pstr(x) for x in v])
            row["obs"] = [os.path.basename(x) for x in items] if p["pathy"] else items
        else:
            x = pstr(v).lower() if p["lower"] else pstr(v)
            row["obs"] = [os.path.basename(x) if p["dest"] in PATHISH else x]
        if p["hasmode"]:
            row["mobs"] = bool(getattr(result, p["mode"], False))
        return row
    absd = lambda d: {"abs": True, "segs": PREFIX + d["segs"]} if d["abs"] else d
    if k == "relpath":
        row = {"kind": "relpath", "cwd": PREFIX + spec["layout"]["cwd"], "d": absd(p["d"]), "p": absd(p["p"]), "o": {"abs": False, "segs": []}, "exc": exc}
        if not exc:
            v = get(p["dest"])
            if isinstance(v, (list, tuple)) and len(v) > p["index"] and isinstance(v[p["index"]], str):
                row["o"] = vpath(v[p["index"]], vroot)
            else:
                row["exc"] = "shape"
        return row
    if k == "couple":
        row = {"kind": "couple", "cwd": PREFIX + spec["layout"]["cwd"], "d": absd(p["d"]), "nf": p["nf"], "named": [absd(x) for x in p["named"]],
               "autos": [absd(x) for x in p["autos"]], "obs": [], "exc": exc}
        if not exc:
            v = get("outfiles")
            if v is None:
                v = []
            if isinstance(v, (list, tuple)) and all(isinstance(x, str) for x in v):
                row["obs"] = [vpath(x, vroot) for x in v]
            else:
                row["exc"] = "shape"
        return row
    if k == "define":
        row = {"kind": "define", "text": chars(p["text"]), "name": [], "value": [], "exc": exc}
        if not exc:
            ud = get("userdata")
            if len(ud) == 1 and all(isinstance(x, str) for x in list(ud.items())[0]):
                (n, v), = ud.items()
                row["name"], row["value"] = chars(n), chars(v)
            else:
                row["exc"] = "shape"
        return row
    raise ValueError(k)


def observe_define_direct(text):
    from behave.userdata import parse_user_define
    row = {"kind": "define", "text": chars(text), "name": [], "value": [], "exc": ""}
    try:
        n, v = parse_user_define(text)
        if isinstance(n, str) and isinstance(v, str):
            row["name"], row["value"] = chars(n), chars(v)
        else:
            row["exc"] = "shape"
    except Exception as e:
        row["exc"] = type(e).__name__
    return row


def call_getter(target, key, g):
    """one getter call, recorded: res value/default/valueerror/exc:<type>, type name and value of the result"""
    sentinel = object()
    out = {"res": "", "ty": "", "neg": False, "mag": 0, "repr": []}
    try:
        if g == "int":
            r = target.getint(key, sentinel)
        elif g == "float":
            r = target.getfloat(key, sentinel)
        elif g == "bool":
            r = target.getbool(key, sentinel)
        else:
            r = target.getas(int, key, sentinel)
    except ValueError:
        out["res"] = "valueerror"
        return out
    except Exception as e:
        out["res"] = "exc:" + type(e).__name__
        return out
    if r is sentinel:
        out["res"] = "default"
        return out
    out["res"], out["ty"] = "value", type(r).__name__
    if isinstance(r, bool):
        out["mag"] = 1 if r else 0
    elif isinstance(r, int):
        out["neg"], out["mag"] = r < 0, min(abs(r), 2000000000)
    elif isinstance(r, float):
        out["repr"] = chars(repr(r))
    return out


def getter_target(spec, stored):
    from behave.userdata import UserData, UserDataNamespace
    data = UserData({"ns.k": stored} if spec["present"] else {"ns.other": "1"})
    return (UserDataNamespace("ns", data), "k") if spec.get("ns") else (data, "ns.k")


def observe_getter(spec):
    g, text = spec["g"], spec["text"]
    stored = text
    if spec.get("pre"):          # a value that already has the target type
        stored = {"int": lambda t: int(t), "as": lambda t: int(t), "float": lambda t: float(t),
                  "bool": lambda t: t == "true"}[g](text)
    target, key = getter_target(spec, stored)
    row = {"kind": "getter", "g": g, "present": spec["present"], "text": chars(text)}
    row.update(call_getter(target, key, g))
    return row


def observe_getter_seq(spec):
    """several getter calls, one after the other, on the SAME UserData / UserDataNamespace object"""
    target, key = getter_target(spec, spec["text"])
    return {"kind": "gseq", "text": chars(spec["text"]), "present": spec["present"], "calls": list(spec["calls"]),
            "outs": [call_getter(target, key, g) for g in spec["calls"]]}


# ------------------------------------------------------------------ experiments
class Plan(object):
    def __init__(self, chk, opts):
        self.chk = chk
        self.rnd = random.Random(chk.seed)
        self.opts = opts
        self.by_dest = {o.dest: o for o in opts}
        self.specs = []
        self.n = 0

    def tick(self):
        self.n += 1
        return self.n

    # ---- helpers
    def vals(self, o, forced=None, cv1=None, fv2=None):
        v = {"d": o.default, "fv1": o.exp.get("fv1", [NONE]), "fv2": o.exp.get("fv2", [NONE]),
             "cv1": o.exp.get("cv1", [NONE]), "cv2": o.exp.get("cv2", [NONE]), "forced": [pstr(forced)]}
        if cv1 is not None:
            v["cv1"] = [cv1]
        if fv2 is not None:
            v["fv2"] = list(fv2)
        return v

    def argv_for(self, o, a, variant):
        if a == "absent":
            return "none", []
        forms = o.forms[a]
        return forms[variant % len(forms)]

    def layer_probe(self, o, files, cmd, form, mode=None, mfiles=None, mcmd="absent", cv1=None, fv2=None):
        return {"row": "layer", "dest": o.dest, "okind": o.kind, "islist": o.islist, "pathy": o.pathy, "lower": o.lower,
                "files": list(files), "cmd": cmd, "mfiles": list(mfiles or ["absent"] * len(files)), "mcmd": mcmd,
                "hasmode": mode is not None, "mode": mode or "",
                "vals": self.vals(o, MODES[mode][o.dest] if mode else None, cv1, fv2), "form": form}

    def file_entries(self, layout, assigns, variant):
        """layout: [(where, name)], assigns: per file [(opt, 'v1'|'v2')]"""
        out = []
        for (where, name), items in zip(layout, assigns):
            out.append({"where": where, "name": name, "bw": variant,
                        "behave": [(o.dest, o.file[a][fmt_of(name)]) for o, a in items], "userdata": None})
        return out

    def add(self, spec):
        self.specs.append(spec)

    # ---- (A) one option at a time: every abstract layer case of its kind
    def single_option(self, cases, nlayouts):
        plain = [c for c in cases if not c["hasmode"] and c["okind"] not in ("userdata", "udupdate")]
        for o in self.opts:
            for c in plain:
                if c["okind"] != o.kind:
                    continue
                if c["cmd"] != "absent" and c["cmd"] not in o.forms:
                    continue
                layouts = LAYOUTS[len(c["files"])]
                start = self.rnd.randrange(len(layouts))
                for j in range(min(nlayouts, len(layouts))):
                    layout = layouts[(start + j) % len(layouts)]
                    v = self.tick()
                    form, argv = self.argv_for(o, c["cmd"], v)
                    self.config_spec(o, c, layout, v, form, argv)
                if o.falsy and "v2" in c["files"]:
                    # the file's v2 rendered as the falsy / empty value, once in an ini-style and once in a toml file
                    last = max(k for k, a in enumerate(c["files"]) if a == "v2")
                    for fmt in ("ini", "toml"):
                        fitting = [l for l in layouts if fmt_of(l[last][1]) == fmt]
                        if fitting:
                            v = self.tick()
                            form, argv = self.argv_for(o, c["cmd"], v)
                            self.config_spec(o, c, fitting[v % len(fitting)], v, "%s+file:%s" % (form, o.falsy), argv, falsy=True)
                if c["cmd"] == "v1":                      # further spellings with their own value (const forms)
                    for form, argv, exp in o.extra:
                        layout = layouts[start % len(layouts)]
                        self.config_spec(o, c, layout, self.tick(), form, argv, cv1=exp)

    def config_spec(self, o, c, layout, v, form, argv, cv1=None, falsy=False):
        assigns = [([(o, "v0" if (falsy and a == "v2") else a)] if a != "absent" else []) for a in c["files"]]
        probes = [self.layer_probe(o, c["files"], c["cmd"], form, cv1=cv1, fv2=o.exp["fv0"] if falsy else None)]
        depth = DEPTHS[v % 2]
        mk = []
        if "@existing_dir" in argv:
            argv = [("existing_dir" if a == "@existing_dir" else a) for a in argv]
            mk = ["existing_dir"]
        # a path-valued option named by exactly one file and not on the command line: where did each item land?
        named = [k for k, a in enumerate(c["files"]) if a != "absent"]
        if o.pathy and len(named) == 1 and c["cmd"] == "absent":
            k = named[0]
            where, name = layout[k]
            d = {"abs": False, "segs": ["."]} if where == "cwd" else {"abs": True, "segs": depth["home"]}
            for ix, item in enumerate(o.file[c["files"][k]]["ini"]):
                probes.append({"row": "relpath", "dest": o.dest, "index": ix, "d": d,
                               "p": {"abs": False, "segs": item.split("/")}})
        self.add({"type": "config", "layout": depth, "files": self.file_entries(layout, assigns, v), "argv": list(argv),
                  "mkdirs": mk, "probes": probes})

    # ---- (B) an option together with the mode switch that is documented to force it
    def coupled(self, cases):
        coupled = [c for c in cases if c["hasmode"]]
        for mode, targets in sorted(MODES.items()):
            m = self.by_dest.get(mode)
            if m is None:
                continue
            for dest in sorted(targets):
                o = self.by_dest.get(dest)
                if o is None:
                    continue
                for c in coupled:
                    if c["okind"] != o.kind or (c["cmd"] != "absent" and c["cmd"] not in o.forms):
                        continue
                    if c["mcmd"] != "absent" and c["mcmd"] not in m.forms:
                        continue
                    v = self.tick()
                    layout = LAYOUTS[1][v % 2]
                    form, argv = self.argv_for(o, c["cmd"], v)
                    mform, margv = self.argv_for(m, c["mcmd"], v)
                    items = [(x, a) for x, a in ((o, c["files"][0]), (m, c["mfiles"][0])) if a != "absent"]
                    probe = self.layer_probe(o, c["files"], c["cmd"], form + "+" + mode, mode=mode, mfiles=c["mfiles"], mcmd=c["mcmd"])
                    self.add({"type": "config", "layout": DEPTHS[v % 2], "files": self.file_entries(layout, [items], v),
                              "argv": (argv + margv) if v % 3 else (margv + argv), "probes": [probe]})

    # ---- (A2) histories: several constructions in one process; the first reads a file that assigns the option
    def histories(self, cases, longer):
        hist = [c for c in cases if c["k"] == "hist"]
        ud_vals = {"d": [MISSING], "fv1": ["fx1"], "fv2": ["fx2"], "cv1": ["cx1"], "cv2": ["cx2"], "forced": [NONE]}
        for o in self.opts + ["userdata"]:
            kind = "userdata" if o == "userdata" else o.kind
            mine = [c for c in hist if c["okind"] == kind]
            if o != "userdata":
                mine = [c for c in mine if all(con["cmd"] == "absent" or con["cmd"] in o.forms for con in c["cons"])]
            short = [c for c in mine if len(c["cons"]) == 2]
            rest = [c for c in mine if len(c["cons"]) > 2]
            self.rnd.shuffle(rest)
            for c in short + rest[:longer]:
                steps = []
                for n, con in enumerate(c["cons"]):
                    v = self.tick()
                    layout = LAYOUTS[1][(v + n) % len(LAYOUTS[1])][0] if con["files"] else None
                    files, argv = [], []
                    eff = con["files"] if con["load"] else []
                    if o == "userdata":
                        a = con["files"][0] if con["files"] else "absent"
                        if layout:
                            files = [{"where": layout[0], "name": layout[1], "behave": [],
                                      "userdata": [("x", ud_vals["f" + a][0])] if a != "absent" else ([("y", "fy1")] if v % 2 else None)}]
                        if con["cmd"] != "absent":
                            argv = ["-D", "x=%s" % ud_vals["c" + con["cmd"]][0]]
                        probe = {"row": "layer", "dest": "userdata", "name": "x", "okind": "userdata", "islist": False, "pathy": False,
                                 "lower": False, "files": eff, "cmd": con["cmd"], "mfiles": ["absent"] * len(eff), "mcmd": "absent",
                                 "hasmode": False, "mode": "", "vals": ud_vals, "form": "history%d" % n}
                    else:
                        if layout:
                            files = self.file_entries([layout], [[(o, a)] if a != "absent" else [] for a in con["files"]], v)
                        form, argv = self.argv_for(o, con["cmd"], v)
                        probe = self.layer_probe(o, eff, con["cmd"], "history%d" % n)
                    steps.append({"layout": DEPTHS[(v + n) % 2], "files": files, "argv": list(argv), "load_config": con["load"],
                                  "probes": [probe]})
                self.add({"type": "config", "steps": steps})

    # ---- (A2b) user data with NATIVE values in a toml file (booleans and numbers stay bool / int there) overridden by -D:
    # the command-line text wins as it stands ("false", "off", "0" are texts; the typed getters convert them)
    def native_userdata(self):
        for n, (native, cmd_text) in enumerate([(True, "false"), (True, "off"), (True, "0"), (False, "yes"), (5, "7"), (2.5, "x"), (True, None), (7, None)]):
            v = self.tick()
            for where in ("cwd", "home"):
                vals = {"d": [MISSING], "fv1": [pstr(native)], "fv2": ["unused"], "cv1": [cmd_text or "unused"], "cv2": ["unused"], "forced": [NONE]}
                probe = {"row": "layer", "dest": "userdata", "name": "x", "okind": "userdata", "islist": False, "pathy": False,
                         "lower": False, "files": ["v1"], "cmd": "v1" if cmd_text is not None else "absent", "mfiles": ["absent"], "mcmd": "absent",
                         "hasmode": False, "mode": "", "vals": vals, "form": "native%d" % n}
                self.add({"type": "config", "layout": DEPTHS[(v + n) % 2],
                          "files": [{"where": where, "name": "pyproject.toml", "behave": [], "userdata": [("x", native)]}],
                          "argv": ["-D", "x=%s" % cmd_text] if cmd_text is not None else [], "load_config": True, "probes": [probe]})

    # ---- (A3) histories over ONE untouched file: a construction that rewrites list-valued settings for its mode
    # (--steps-catalog puts its own formatter into config.format) is followed by a plain construction from the same file
    def same_file_histories(self):
        by = {o.dest: o for o in self.opts}
        lists = [by[d] for d in ("format", "outfiles") if d in by]
        if len(lists) < 2:
            return
        for n, (layout, first_argv) in enumerate([(lay[0], a) for lay in LAYOUTS[1][:3] for a in (["--steps-catalog"], ["--steps-catalog", "--dry-run"], ["-f", "steps.catalog"])]):
            v = self.tick()
            files = self.file_entries([layout], [[(o, "v1") for o in lists]], v)
            depth = DEPTHS[n % 2]
            steps = [{"layout": depth, "files": files, "argv": list(first_argv), "load_config": True, "probes": [], "keep": True},
                     {"layout": depth, "files": [], "argv": [], "load_config": True,
                      "probes": [self.layer_probe(o, ["v1"], "absent", "samefile%d" % n) for o in lists]}]
            self.add({"type": "config", "steps": steps})

    # ---- (C) seeded subsets of options in one or two files x subsets on the command line
    def subsets(self, count):
        skip = {"wip", "steps_catalog", "quiet"}
        pool = [o for o in self.opts if o.dest not in skip]
        for _ in range(count):
            v = self.tick()
            nfiles = self.rnd.choice((1, 1, 2))
            layout = self.rnd.choice(LAYOUTS[nfiles])
            p_file, p_cmd = self.rnd.choice((0.15, 0.4, 0.8)), self.rnd.choice((0.1, 0.3, 0.7))
            fa = {o.dest: [self.rnd.choice(("v1", "v2")) if self.rnd.random() < p_file else "absent" for _k in range(nfiles)] for o in pool}
            ca = {o.dest: (self.rnd.choice(sorted(o.forms)) if (o.forms and self.rnd.random() < p_cmd) else "absent") for o in pool}
            if "format" in fa and "outfiles" in fa:      # keep the file-level format/outfiles coupling out of these runs:
                # a file that names formats names as many outfiles (v1: 3 and 3, v2: 2 and 2)
                fa["outfiles"] = [fa["format"][k] if fa["format"][k] != "absent" else fa["outfiles"][k] for k in range(nfiles)]
            if "default_tags" in fa and all(a == "absent" for a in fa["tags"]) and ca["tags"] == "absent":
                fa["default_tags"] = ["absent"] * nfiles      # default_tags IS the default of tags: keep the two apart here
            assigns = [[(o, fa[o.dest][k]) for o in pool if fa[o.dest][k] != "absent"] for k in range(nfiles)]
            for items in assigns:
                self.rnd.shuffle(items)
            groups, probes, positional = [], [], []
            order = list(pool)
            self.rnd.shuffle(order)
            switch = None       # a value-less colour switch (--color without value, --no-color, -C) between the options
            if ca.get("color") == "absent" and self.colour_switches() and self.rnd.random() < 0.4:
                switch = self.rnd.choice(self.colour_switches())
            for o in order:
                if switch and o.dest == "color":
                    probes.append(self.layer_probe(o, fa[o.dest], "v1", "subset:" + switch[0], cv1=switch[2]))
                    continue
                form, a = self.argv_for(o, ca[o.dest], self.rnd.randrange(8))
                if o.kind == "paths":
                    positional.extend(a)
                elif a:
                    groups.append(a)
                mode = "junit" if (o.dest in MODES["junit"] and "junit" in fa) else None
                probes.append(self.layer_probe(o, fa[o.dest], ca[o.dest], "subset:" + form, mode=mode,
                                               mfiles=fa["junit"] if mode else None, mcmd=ca["junit"] if mode else "absent"))
            if switch:
                at = self.rnd.randrange(len(groups) + 1)
                if switch[0] == "bare" and at == len(groups) and positional:
                    # `--color NOT-A-COLOUR-AND-NOT-AN-EXISTING-PATH` is the documented problem point: keep the line legal
                    if groups:
                        at -= 1
                    else:
                        switch = [t for t in self.colour_switches() if t[0] != "bare"][0]
                        for pr in probes:
                            if pr["dest"] == "color":
                                pr["vals"] = dict(pr["vals"], cv1=[switch[2]])
                                pr["form"] = "subset:" + switch[0]
                groups.insert(at, list(switch[1]))
            argv = [t for g in groups for t in g]
            self.add({"type": "config", "layout": DEPTHS[v % 2], "files": self.file_entries(layout, assigns, v),
                      "argv": argv + positional, "probes": probes})

    def colour_switches(self):
        """[(name, argv tokens, projected colour)]: `--color` without value (its const), --no-color, -C"""
        color = self.by_dest.get("color")
        if color is None:
            return []
        out = [("bare", e[1], e[2]) for e in color.extra if e[0] == "bare-last"]
        return out + [("const" + e[1][0], e[1], e[2]) for e in color.extra if e[0] == "const"]

    # ---- (C2) a value-less colour switch at every position of a command line: the other options still take effect
    def colour_switch(self, cases, rounds):
        switches = self.colour_switches()
        color = self.by_dest.get("color")
        if not switches:
            return
        pool = [o for o in self.opts if o.dest != "color" and o.dest not in MODES and o.forms
                and o.kind in ("boolpair", "boolflag", "scalar", "typed", "choice")] + ["userdata"]
        ud_vals = {"d": [MISSING], "fv1": ["fx1"], "fv2": ["fx2"], "cv1": ["cx1"], "cv2": ["cx2"], "forced": [NONE]}
        define_forms = [lambda x: ["-D", "x=%s" % x], lambda x: ["--define", "x=%s" % x], lambda x: ["--define=x=%s" % x], lambda x: ["-Dx=%s" % x]]
        for c in [c for c in cases if c["k"] == "argv"]:
            n = len(c["argv"])
            where = "only" if n == 0 else ("first" if c["pos"] == 1 else ("last" if c["pos"] == n + 1 else "middle"))
            for r in range(rounds):
                v = self.tick()
                sw = switches[0] if r % 3 != 2 else switches[1 + (v % (len(switches) - 1))] if len(switches) > 1 else switches[0]
                if r % 3 == 1 and c["pos"] <= n:
                    pair = ["userdata", self.rnd.choice(pool[:-1])]       # the switch directly before / around a -D define
                    if c["argv"][c["pos"] - 1]["opt"] == "o2":
                        pair.reverse()
                else:
                    pair = self.rnd.sample(pool, 2)
                concrete = {"o1": pair[0], "o2": pair[1]}
                groups, final = [], {}
                for item in c["argv"]:
                    o = concrete[item["opt"]]
                    if o == "userdata":
                        val = item["val"]
                        groups.append(define_forms[(v + len(groups)) % 4](ud_vals["c" + val][0]))
                    else:
                        val = item["val"] if item["val"] in o.forms else "v1"
                        groups.append(list(self.argv_for(o, val, v + len(groups))[1]))
                    final[item["opt"]] = val
                groups.insert(c["pos"] - 1, list(sw[1]))
                # one file assigns both options (the value the command line does not end with) and a colour
                behave, userdata, probes = [], None, []
                name = ("behave.ini", "pyproject.toml")[v % 2]
                for key in ("o1", "o2"):
                    o, cmd = concrete[key], final.get(key, "absent")
                    fa = "v2" if cmd == "v1" else "v1"
                    form = "colour-switch:%s:%s" % (sw[0], where)
                    if o == "userdata":
                        userdata = [("x", ud_vals["f" + fa][0])]
                        probes.append({"row": "layer", "dest": "userdata", "name": "x", "okind": "userdata", "islist": False, "pathy": False,
                                       "lower": False, "files": [fa], "cmd": cmd, "mfiles": ["absent"], "mcmd": "absent",
                                       "hasmode": False, "mode": "", "vals": ud_vals, "form": form})
                    else:
                        behave.append((o.dest, o.file[fa][fmt_of(name)]))
                        probes.append(self.layer_probe(o, [fa], cmd, form))
                behave.append((color.dest, color.file["v1"][fmt_of(name)]))
                probes.append(self.layer_probe(color, ["v1"], "v1", "%s:%s" % (sw[0], where), cv1=sw[2]))
                self.add({"type": "config", "layout": DEPTHS[v % 2], "argv": [t for g in groups for t in g], "probes": probes,
                          "files": [{"where": "cwd", "name": name, "bw": v, "behave": behave, "userdata": userdata}]})

    # ---- (D) format/outfiles coupling inside one file, (E) paths named in files at several depths
    def couples(self, cases):
        outs = [{"abs": False, "segs": ["o_b.txt"]}, {"abs": False, "segs": ["sub", "o_a.txt"]}, {"abs": False, "segs": ["..", "o_c.txt"]}]
        fmts = ["plain", "json", "progress"]
        for c in [c for c in cases if c["k"] == "couple"]:
            nf, no = c["nf"], c["no"]
            for where, name, rel in (("cwd", "behave.ini", None), ("cwd", "pyproject.toml", None), ("home", "behave.ini", None),
                                     ("home", "pyproject.toml", None), ("cwd", "behave.ini", ["s", "t"]), ("cwd", "setup.cfg", ["..", "h2"])):
                if nf == 0 and no == 0:
                    continue
                v = self.tick()
                depth = DEPTHS[v % 2]
                behave = ([("format", fmts[:nf])] if nf else []) + ([("outfiles", outs[:no])] if no else [])
                if v % 2:
                    behave.reverse()
                probe = {"row": "couple", "nf": nf, "named": outs[:no],
                         "autos": [{"abs": False, "segs": [f + ".output"]} for f in fmts[:nf]]}
                entry = {"where": where, "name": name, "behave": behave, "userdata": None}
                if rel is None:
                    probe["d"] = {"abs": False, "segs": ["."]} if where == "cwd" else {"abs": True, "segs": depth["home"]}
                    self.add({"type": "config", "layout": depth, "files": [entry], "argv": [], "probes": [probe]})
                else:
                    entry["dir"] = rel
                    probe["d"] = {"abs": False, "segs": rel}
                    self.add({"type": "readcfg", "layout": depth, "files": [entry], "path": {"abs": False, "segs": rel + [name]},
                              "probes": [probe]})

    def paths(self, cases):
        for c in [c for c in cases if c["k"] == "path"]:
            d, p = c["d"], c["p"]
            if not p["segs"]:
                continue            # an empty value names no path
            v = self.tick()
            name = ("behave.ini", "pyproject.toml", "setup.cfg")[v % 3]
            layout = {"cwd": c["cwd"], "home": d["segs"] if d["abs"] else ["h"]}
            probes = [{"row": "relpath", "dest": dest, "index": 0, "d": d, "p": p} for dest in PATHY]
            behave = [("paths", [p]), ("outfiles", [p])]
            if d["abs"]:
                # an absolute file name: through HOME with the real Configuration, and through read_configuration
                entry = {"where": "home", "name": name, "behave": behave, "userdata": None}
                self.add({"type": "config", "layout": layout, "files": [entry], "argv": [], "probes": probes})
                self.add({"type": "readcfg", "layout": layout, "files": [entry], "path": {"abs": True, "segs": d["segs"] + [name]}, "probes": probes})
            else:
                entry = {"where": "cwd", "name": name, "dir": d["segs"], "behave": behave, "userdata": None}
                self.add({"type": "readcfg", "layout": layout, "files": [entry], "path": {"abs": False, "segs": d["segs"] + [name]}, "probes": probes})
                if d["segs"] == ["."]:
                    self.add({"type": "config", "layout": layout, "files": [entry], "argv": [], "probes": probes})

    # ---- (F) user data layering
    def userdata(self, cases, nlayouts):
        define_forms = [lambda n, x: ["-D", "%s=%s" % (n, x)], lambda n, x: ["--define=%s=%s" % (n, x)], lambda n, x: ["-D%s=%s" % (n, x)],
                        lambda n, x: ["--define", '%s="%s"' % (n, x)], lambda n, x: ["-D", " %s = %s " % (n, x)]]
        vals = {"d": [MISSING], "fv1": ["fx1"], "fv2": ["fx2"], "cv1": ["cx1"], "cv2": ["cx2"], "forced": [NONE]}
        for c in [c for c in cases if c["okind"] == "userdata" and not c["hasmode"]]:
            layouts = LAYOUTS[len(c["files"])]
            start = self.rnd.randrange(len(layouts))
            for j in range(min(nlayouts, len(layouts))):
                layout = layouts[(start + j) % len(layouts)]
                v = self.tick()
                companion = v % 3 != 0          # y: in every file, never on the command line
                files = []
                for (where, name), a in zip(layout, c["files"]):
                    ud = ([("x", vals["f" + a][0])] if a != "absent" else []) + ([("y", "fy1")] if companion else [])
                    if v % 2:
                        ud.reverse()
                    files.append({"where": where, "name": name, "behave": [], "userdata": ud if (ud or v % 5 == 0) else None})
                argv = define_forms[v % len(define_forms)]("x", vals["c" + c["cmd"]][0]) if c["cmd"] != "absent" else []
                zcmd = v % 2 == 0                # z: only on the command line
                if zcmd:
                    argv = argv + ["-D", "z=cz1"] if v % 4 else ["-D", "z=cz1"] + argv
                base = {"row": "layer", "dest": "userdata", "okind": "userdata", "islist": False, "pathy": False, "lower": False,
                        "mfiles": ["absent"] * len(c["files"]), "mcmd": "absent", "hasmode": False, "mode": "", "form": "define%d" % (v % len(define_forms))}
                probes = [dict(base, name="x", files=c["files"], cmd=c["cmd"], vals=vals)]
                if companion:
                    probes.append(dict(base, name="y", files=["v1"] * len(c["files"]), cmd="absent", vals=dict(vals, fv1=["fy1"])))
                probes.append(dict(base, name="z", files=["absent"] * len(c["files"]), cmd="v1" if zcmd else "absent", vals=dict(vals, cv1=["cz1"])))
                self.add({"type": "config", "layout": DEPTHS[v % 2], "files": files, "argv": argv, "probes": probes})

    def userdata_update(self, cases):
        """files[0] = the configuration file's assignment (fx2), files[1] = a later Configuration.update_userdata() (lx1)"""
        vals = {"d": [MISSING], "fv1": ["lx1"], "fv2": ["fx2"], "cv1": ["cx1"], "cv2": ["cx2"], "forced": [NONE]}
        for c in cases:
            if c["okind"] != "udupdate" or c["hasmode"] or len(c["files"]) != 2 or c["files"][1] != "v1" or c["files"][0] == "v1":
                continue
            for name in ("behave.ini", "pyproject.toml"):
                v = self.tick()
                ud = ([("x", "fx2")] if c["files"][0] == "v2" else []) + [("y", "fy1")]
                argv = ["-D", "x=%s" % vals["c" + c["cmd"]][0]] if c["cmd"] != "absent" else []
                base = {"row": "layer", "dest": "userdata", "okind": "udupdate", "islist": False, "pathy": False, "lower": False,
                        "mfiles": ["absent", "absent"], "mcmd": "absent", "hasmode": False, "mode": "", "form": "update_userdata"}
                probes = [dict(base, name="x", files=c["files"], cmd=c["cmd"], vals=vals),
                          dict(base, name="y", files=["v2", "absent"], cmd="absent", vals=dict(vals, fv2=["fy1"])),
                          dict(base, name="w", files=["absent", "v1"], cmd="absent", vals=dict(vals, fv1=["lw1"]))]
                self.add({"type": "config", "layout": DEPTHS[v % 2], "argv": argv, "probes": probes,
                          "files": [{"where": "cwd", "name": name, "behave": [], "userdata": ud}],
                          "post": {"update_userdata": {"x": "lx1", "w": "lw1"}}})

    # ---- (F2) names are case-sensitive keys
    def case_keys(self, cases):
        """two user data names that differ only in case, each assigned or not by the file and by -D"""
        pairs = [("baseurl", "baseURL"), ("retry.count", "Retry.Count"), ("x", "X"), ("my_key", "MY_KEY")]
        vals = {"d": [MISSING], "fv1": ["3"], "fv2": ["4"], "cv1": ["5"], "cv2": ["6"], "forced": [NONE]}
        for c in [c for c in cases if c["k"] == "keys"]:
            for name in ("behave.ini", "pyproject.toml", "setup.cfg"):
                v = self.tick()
                names = pairs[v % len(pairs)]
                ud = [(n, vals["f" + a][0]) for n, a in zip(names, c["fa"]) if a != "absent"]
                defs = [["-D", "%s=%s" % (n, vals["c" + a][0])] for n, a in zip(names, c["ca"]) if a != "absent"]
                if v % 2:
                    ud.reverse()
                    defs.reverse()
                base = {"row": "layer", "dest": "userdata", "okind": "userdata", "islist": False, "pathy": False, "lower": False,
                        "mfiles": ["absent"], "mcmd": "absent", "hasmode": False, "mode": "", "vals": vals}
                probes = []
                for k, n in enumerate(names):
                    probes.append(dict(base, name=n, files=[c["fa"][k]], cmd=c["ca"][k], form="case-keys:" + ("lower" if k == 0 else "mixed")))
                    probes.append(dict(base, name=n, files=[c["fa"][k]], cmd=c["ca"][k], via="getint",
                                       form="case-keys:getint:" + ("lower" if k == 0 else "mixed")))
                self.add({"type": "config", "layout": DEPTHS[v % 2], "argv": [t for d in defs for t in d], "probes": probes,
                          "files": [{"where": ("cwd", "home")[v % 3 == 0], "name": name, "behave": [], "userdata": ud if (ud or v % 2) else None}]})

    def miscased_option_keys(self):
        """an option key of [behave] / [tool.behave] spelled in another case does not mention the option"""
        for o in self.opts:
            spellings = [s for s in (o.dest.capitalize(), o.dest.upper(), o.dest.title()) if s != o.dest]
            for j, spelled in enumerate(dict.fromkeys(spellings)):
                for name in ("behave.ini", "pyproject.toml", ".behaverc")[: 3 if j == 0 else 2]:
                    v = self.tick()
                    fmt = fmt_of(name)
                    # alone: the option is mentioned nowhere; next to the proper key: the proper key's value counts
                    self.add({"type": "config", "layout": DEPTHS[v % 2], "argv": [],
                              "files": [{"where": "cwd", "name": name, "bw": v, "behave": [(spelled, o.file["v1"][fmt])], "userdata": None}],
                              "probes": [self.layer_probe(o, ["absent"], "absent", "miscased-key")]})
                    both = [(spelled, o.file["v1"][fmt]), (o.dest, o.file["v2"][fmt])]
                    if v % 2:
                        both.reverse()
                    self.add({"type": "config", "layout": DEPTHS[v % 2], "argv": [],
                              "files": [{"where": "cwd", "name": name, "bw": v, "behave": both, "userdata": None}],
                              "probes": [self.layer_probe(o, ["v2"], "absent", "miscased-key+proper")]})

    # ---- (G) -D strings, (H) getters
    def defines(self, cases, via_config):
        texts = sorted({"".join(c["text"]) for c in cases if c["k"] in ("define", "render")}, key=lambda s: (len(s), s))
        for t in texts:
            self.add({"type": "define", "text": t})
        short = [t for t in texts if len(t) <= 4]
        rest = [t for t in texts if len(t) > 4]
        self.rnd.shuffle(rest)
        for t in short + rest[:via_config]:
            v = self.tick()
            argv = (["-D", t], ["--define", t], ["--define=" + t])[v % 3]
            self.add({"type": "config", "layout": DEPTHS[v % 2], "files": [], "argv": argv, "probes": [{"row": "define", "text": t}]})
        return len(texts)

    def getters(self, cases):
        texts = sorted({"".join(c["text"]) for c in cases if c["k"] == "getter"}, key=lambda s: (len(s), s))
        for k, t in enumerate(texts):
            for g in ("int", "float", "bool", "as"):
                self.add({"type": "getter", "g": g, "present": True, "text": t, "ns": (k % 4 == 3)})
        for g in ("int", "float", "bool", "as"):
            for ns in (False, True):
                self.add({"type": "getter", "g": g, "present": False, "text": "", "ns": ns})
        for k, c in enumerate(c for c in cases if c["k"] == "gseq"):
            self.add({"type": "gseq", "present": True, "text": "".join(c["text"]), "calls": c["calls"], "ns": (k % 3 == 2)})
        for calls in (["int", "float", "bool"], ["bool", "bool", "as"]):
            for ns in (False, True):
                self.add({"type": "gseq", "present": False, "text": "", "calls": calls, "ns": ns})
        for g, ts in (("int", ["5", "-3", "0"]), ("as", ["17"]), ("float", ["2.5", "-0.25", "10.0"]), ("bool", ["true", "false"])):
            for t in ts:
                self.add({"type": "getter", "g": g, "present": True, "text": t, "pre": True, "ns": False})
        return len(texts)


# ------------------------------------------------------------------ signatures, judging
def describe(spec, probe_ix):
    """(short stable signature attributes, human readable input)"""
    t = spec["type"]
    if t == "define":
        return "direct", "parse_user_define(%r)" % spec["text"]
    if t == "gseq":
        return ("gseq|getters=%s|present=%s" % ("+".join(sorted(set(spec["calls"]))), spec["present"]),
                "%s getters %s one after the other on %r (same object)" % ("UserDataNamespace" if spec.get("ns") else "UserData",
                                                                             ", ".join(spec["calls"]), spec["text"]))
    if t == "getter":
        return "g=%s|present=%s%s" % (spec["g"], spec["present"], "|pre" if spec.get("pre") else ""), "UserData getter %s on %r" % (spec["g"], spec["text"])
    whole, history = spec, None
    if "steps" in spec:
        history = [{"files": [{"where": e["where"], "name": e["name"], "behave": e["behave"], "userdata": e.get("userdata")} for e in st["files"]],
                    "argv": st["argv"], "load_config": st.get("load_config", True), "cwd": "/".join(st["layout"]["cwd"])} for st in spec["steps"]]
        for st in spec["steps"]:
            if probe_ix < len(st["probes"]):
                spec = dict(st, type=t)
                break
            probe_ix -= len(st["probes"])
    p = spec["probes"][probe_ix]
    shown = {"cwd": "/".join(spec["layout"]["cwd"]), "home": "/".join(spec["layout"]["home"]), "argv": spec.get("argv"),
             "call": ("read_configuration(%s)" % "/".join(spec["path"]["segs"])) if t == "readcfg" else "Configuration(argv)",
             "files": [{"where": e["where"], "dir": e.get("dir"), "name": e["name"], "behave": e["behave"], "userdata": e.get("userdata")} for e in spec["files"]]}
    if history:
        shown["constructions_in_this_process"] = history
    if p["row"] == "layer":
        what = p.get("name") if p["okind"] in ("userdata", "udupdate") else p["dest"]
        sig = "dest=%s|kind=%s|form=%s" % (what, p["okind"], p["form"])
        shown.update(option=what, file_assignments=p["files"], cmdline_assignment=p["cmd"], expected_values=p["vals"])
    elif p["row"] == "relpath":
        sig = "dest=%s|api=%s|dir=%s" % (p["dest"], t, "abs" if p["d"]["abs"] else "rel")
        shown.update(option=p["dest"], named=p["p"], file_dir=p["d"])
    elif p["row"] == "couple":
        sig = "api=%s|dir=%s" % (t, "abs" if p["d"]["abs"] else "rel")
        shown.update(named=p["named"], formats=p["nf"], file_dir=p["d"])
    else:
        sig = "via=config"
        shown.update(define=p["text"])
    return sig, json.dumps(shown, sort_keys=True)


def observed_of(row):
    if row["kind"] == "define":
        return {"name": "".join(row["name"]), "value": "".join(row["value"]), "exc": row["exc"]}
    if row["kind"] == "gseq":
        return [{k: ("".join(o[k]) if k == "repr" else o[k]) for k in ("res", "ty", "neg", "mag", "repr")} for o in row["outs"]]
    if row["kind"] == "getter":
        return {k: ("".join(row[k]) if k == "repr" else row[k]) for k in ("res", "ty", "neg", "mag", "repr")}
    if row["kind"] == "layer":
        return {"obs": row["obs"], "exc": row["exc"], "mode_on": row["mobs"]}
    return {"obs": row.get("o", row.get("obs")), "exc": row["exc"]}


def judge(chk, rows, chunks):
    verdicts = trace.judge_rows(chk, "Config_Trace", rows, chunks=chunks, min_chunk=400)
    out = {}
    for rid, vs in verdicts.items():
        for v in vs:
            if v[2] == "~div":
                chk.divergences += 1
            else:
                out.setdefault(rid, []).append(v[2])
    return out


def run(chk):
    cfg = "Config_MC_quick.cfg" if chk.quick() else "Config_MC_thorough.cfg"
    r = chk.tlc("Config_MC", cfg, timeout=1800, workers=WORKERS)
    for name in r.violated:
        chk.violation("C20.design." + name, "design:%s" % name, "TLC: invariant %s violated in Config_MC (%s)" % (name, cfg))
    cases = [json.loads(t[1]) for t in r.by_tag("CASE")]
    layer_cases = [c for c in cases if c["k"] == "layer"]
    opts = build_options(chk)
    plan = Plan(chk, opts)
    plan.single_option(layer_cases, 2 if chk.quick() else 8)
    plan.histories(cases, 0 if chk.quick() else 40)
    plan.same_file_histories()
    plan.native_userdata()
    plan.coupled(layer_cases)
    plan.subsets(120 if chk.quick() else 4000)
    plan.colour_switch(cases, 6 if chk.quick() else 30)
    plan.couples(cases)
    plan.paths(cases)
    plan.userdata(layer_cases, 2 if chk.quick() else 8)
    plan.userdata_update(layer_cases)
    plan.case_keys(cases)
    plan.miscased_option_keys()
    ndef = plan.defines(cases, 300 if chk.quick() else 3000)
    nget = plan.getters(cases)

    root = os.path.realpath(tempfile.mkdtemp(prefix="verif-c20-"))
    rows, meta = [], {}
    here = os.getcwd()
    try:
        with ClassDefaults():
            for spec in plan.specs:
                for k, row in enumerate(exec_spec(spec, root)):
                    row["id"] = len(rows) + 1
                    rows.append(row)
                    meta[row["id"]] = (spec, k)
    finally:
        os.chdir(here)
        shutil.rmtree(root, ignore_errors=True)
    verdicts = judge(chk, rows, WORKERS)
    byid = {row["id"]: row for row in rows}
    for rid in sorted(verdicts):
        spec, k = meta[rid]
        attrs, shown = describe(spec, k)
        for clause in verdicts[rid]:
            chk.violation(clause, "%s|%s" % (clause, attrs), "input=%s observed=%s" % (shown, json.dumps(observed_of(byid[rid]), sort_keys=True)),
                          {"spec": spec, "probe": k})
    # evidence
    kinds = {}
    for row in rows:
        key = row["kind"] if row["kind"] != "layer" else ("userdata" if row["okind"] in ("userdata", "udupdate") else "layer")
        kinds[key] = kinds.get(key, 0) + 1
    chk.impl_traces = sum(len(steps_of(sp)) if sp["type"] == "config" else 1 for sp in plan.specs)
    chk.extra["histories"] = sum(1 for sp in plan.specs if "steps" in sp)
    chk.evaluations = len(rows)
    chk.exhaustive = True
    chk.extra["rows_by_kind"] = kinds
    chk.extra["options_covered"] = {o.dest: o.kind for o in opts}
    chk.extra["options_with_derived_default"] = [o.dest for o in opts if o.derived_default]
    chk.extra["define_texts"] = ndef
    chk.extra["getter_texts"] = nget
    chk.extra["distinct_nontrivial"] = len({json.dumps(s, sort_keys=True) for s in plan.specs})
    for rid in (1, len(rows) // 2, len(rows)):
        spec, k = meta[rid]
        chk.sample({"input": json.loads(describe(spec, k)[1]) if spec["type"] in ("config", "readcfg") else describe(spec, k)[1],
                    "observed": observed_of(byid[rid])})
    chk.rule = ("every option of behave's config-file schema x every TLC layer case of its kind (file assignments in {absent,v1,v2}^n, "
                "n<=%d, x command line in {absent,v1,v2}) x file name/location variants, the file's v2 also as the value that converts to "
                "something falsy (0, NOTSET) or is empty, in ini-style and toml files; histories of 2 (thorough: also 3) constructions in one "
                "process (first reads a file assigning the option; later ones: no file, a file omitting/assigning it, load_config=False, any "
                "command line); every option key of a file spelled in another case (alone, next to the proper key); two user data names "
                "differing only in case x {absent,v1,v2}^2 in the file x {absent,v1,v2}^2 by -D (read directly and through getint); "
                "a value-less colour switch (--color, --no-color, -C) at every position of every command line of up to 2 "
                "occurrences of 2 other options (incl. -D defines), and inside the seeded subsets; option x forcing mode switch pairs; seeded "
                "option subsets; all -D strings up to %d characters over {a,=,blank,\",'} plus every rendering of the documented forms; "
                "all path shapes up to %d segments x 7 file directories x 2 cwd depths; format/outfiles counts 0..3; all getter texts up to "
                "%d characters over {1,0,7,-,+,.,blank,x} plus boolean words, each also under every sequence of 2 (3 where some getter "
                "converts the text) getters on one object; distinct = distinct experiments (real executions)"
                % ((2, 5, 2, 3) if chk.quick() else (3, 7, 3, 4)))
    chk.assumptions = [
        "the built-in default of an option is the documented one (docs/behave.rst, help texts); BEHAVE_COLOR/BEHAVE_STAGE unset",
        "'wins' is judged for options whose command-line form replaces the value (booleans, scalars, choices, typed, tags, positional paths); "
        "for append options (format, outfiles, name) only the order of the file's items is judged",
        "an option that a mode switch (junit, wip, quiet, steps_catalog) is documented to force is not judged while that switch is observed on",
        "'relative paths and output files' are the options `paths` and `outfiles`; junit_directory is recorded as a plain scalar",
        "which configuration file wins over another file is not stated: with several assigning files any of their values is accepted",
        "-D texts outside the documented forms (unbalanced or nested quotes, names with blanks or quotes, empty text) are recorded, not judged",
        "only blanks as whitespace; getter texts are plain decimals (no exponent, underscore, inf/nan)",
    ]


def replay(chk, payload):
    spec, k = payload["replay"]["spec"], payload["replay"]["probe"]
    root = os.path.realpath(tempfile.mkdtemp(prefix="verif-c20-"))
    here = os.getcwd()
    try:
        with ClassDefaults():
            rows = exec_spec(spec, root)
    finally:
        os.chdir(here)
        shutil.rmtree(root, ignore_errors=True)
    for n, row in enumerate(rows):
        row["id"] = n + 1
    verdicts = judge(chk, rows, 1)
    chk.impl_traces = 1
    attrs, shown = describe(spec, k)
    for clause in verdicts.get(k + 1, []):
        chk.violation(clause, "%s|%s" % (clause, attrs), "replayed input=%s observed=%s" % (shown, json.dumps(observed_of(rows[k]), sort_keys=True)),
                      {"spec": spec, "probe": k})
    chk.sample({"replayed": json.loads(shown) if shown.startswith("{") else shown, "observed": observed_of(rows[k])})
