------------------------------- MODULE Config -------------------------------
(***************************************************************************)
(* Configuration layering and user data of behave (C20).                   *)
(*                                                                         *)
(* 1. layering  : the state machine of one Configuration() construction    *)
(*                for one option (Default < File_1 < .. < File_n < CmdLine *)
(*                < mode switches) next to the precedence rule `Resolve`   *)
(*                the property states;                                     *)
(* 2. coupling  : format/outfiles coupling inside one configuration file;  *)
(* 3. paths     : os.path.join/normpath on segment sequences, "resolved    *)
(*                relative to the file";                                   *)
(* 4. defines   : parse_user_define() as the code does it (ParseDefine),   *)
(*                the documented forms (Render) and their recogniser (Doc);*)
(* 5. getters   : int()/float()/parse_bool() on character sequences.       *)
(*                                                                         *)
(* Texts are sequences of one-character strings.  Pure definitions only;   *)
(* Config_MC composes them into a state space, Config_Trace judges rows    *)
(* recorded from the real Configuration / parse_user_define / UserData.    *)
(***************************************************************************)
EXTENDS Naturals, Sequences, FiniteSets

MaxOf(S) == CHOOSE x \in S : \A y \in S : y <= x
MinOf(S) == CHOOSE x \in S : \A y \in S : x <= y
Range(s) == {s[k] : k \in DOMAIN s}
RECURSIVE Filter(_,_)
Filter(s, S) == IF s = <<>> THEN <<>>
                ELSE (IF Head(s) \in S THEN <<Head(s)>> ELSE <<>>) \o Filter(Tail(s), S)
Count(s, x) == Cardinality({k \in DOMAIN s : s[k] = x})
IsPerm(a, b) == Len(a) = Len(b) /\ \A x \in Range(a) \cup Range(b) : Count(a, x) = Count(b, x)

\* ========================================================================
\* 1. LAYERING
\* ========================================================================
\* An assignment of the option in one layer: "absent", "v1" or "v2".
Assigns == {"absent", "v1", "v2"}
\* option kinds
\*   boolpair   --x / --no-x : store_true + store_false sharing one dest
\*   boolflag   --x          : store_true only (the command line cannot say "false")
\*   scalar     --x TEXT     : store
\*   choice     --x {a,b,c}  : store with choices (and a store_const negation like --no-color)
\*   typed      --x TEXT     : store with a type converter
\*   append     --x TEXT ... : action=append; the command line EXTENDS the file's list
\*   tags       --tags       : file value lives in config_tags and is REPLACED by command-line tags
\*   paths      positional   : file-only option + the positional arguments, which replace it
\*   fileonly / fileappend   : no command-line form at all
\*   userdata   one name of [behave.userdata] / -D name=value
\*   udupdate   one user data name, layers = Configuration.update_userdata(dict) calls (dict.update, -D re-applied)
ReplaceKinds == {"boolpair", "boolflag", "scalar", "choice", "typed", "tags", "paths", "fileonly", "fileappend", "udupdate"}
AppendKinds  == {"append"}
NoCmdKinds   == {"fileonly", "fileappend"}
Kinds        == ReplaceKinds \cup AppendKinds \cup {"userdata"}
CmdChoices(kind) == IF kind \in NoCmdKinds THEN {"absent"}
                    ELSE IF kind = "boolflag" THEN {"absent", "v1"} ELSE Assigns

\* values are sequences of source tokens: "d" default, "fv1"/"fv2" the file's v1/v2, "cv1"/"cv2" the
\* command line's v1/v2, "forced" the value a mode switch (junit, wip, quiet, steps_catalog) forces.
FTok(a) == IF a = "v1" THEN "fv1" ELSE "fv2"
CTok(a) == IF a = "v1" THEN "cv1" ELSE "cv2"
\* A layer assigns an option as soon as it MENTIONS it, whatever the value is: a file value that converts to
\* something falsy (jobs = 0, logging_level = NOTSET, a boolean false word) or an empty text ("stage =", stored as
\* "" like any other text) is the file's value and replaces the default just as v1/v2 do.
\* a mode switch is on iff its value is the "true" one (v1)
ModeOn(store) == store \in {<<"fv1">>, <<"cv1">>}

\* state of one construction: the option under test and (hasmode) one mode switch that forces it
LayerInit(kind, files, cmd, mfiles, mcmd, hasmode) ==
   [kind |-> kind, files |-> files, cmd |-> cmd, mfiles |-> mfiles, mcmd |-> mcmd, hasmode |-> hasmode,
    pc |-> 0, store |-> <<"d">>, mstore |-> <<"d">>]
NF(st) == Len(st.files)
LayerDone(st) == st.pc = NF(st) + 2
LayerStep(st) ==
   IF st.pc < NF(st) THEN
      \* load_configuration: defaults.update(read_configuration(file k)); every file replaces the whole
      \* "userdata" dictionary (a file without the name, or without the section, drops it)
      LET k == st.pc + 1
          a == st.files[k]
          m == st.mfiles[k]
      IN [st EXCEPT !.pc = k,
                    !.store  = IF a # "absent" THEN <<FTok(a)>> ELSE IF st.kind = "userdata" THEN <<"d">> ELSE @,
                    !.mstore = IF m # "absent" THEN <<FTok(m)>> ELSE @]
   ELSE IF st.pc = NF(st) THEN
      \* parser.set_defaults(**defaults); parser.parse_args(command_args); setup_userdata()
      [st EXCEPT !.pc = @ + 1,
                 !.store  = IF st.cmd = "absent" THEN @
                            ELSE IF st.kind \in AppendKinds THEN @ \o <<CTok(st.cmd)>>   \* argparse copies the default list and appends
                            ELSE <<CTok(st.cmd)>>,
                 !.mstore = IF st.mcmd = "absent" THEN @ ELSE <<CTok(st.mcmd)>>]
   ELSE IF st.pc = NF(st) + 1 THEN
      \* post-processing in Configuration.__init__: setup_wip_mode, setup_steps_catalog_mode, quiet, setup_reporters (junit)
      [st EXCEPT !.pc = @ + 1,
                 !.store = IF st.hasmode /\ ModeOn(st.mstore) THEN <<"forced">> ELSE @]
   ELSE st
RECURSIVE LayerRun(_)
LayerRun(st) == IF LayerDone(st) THEN st ELSE LayerRun(LayerStep(st))

\* ---- histories: several constructions in ONE process.  Every construction copies the class-level
\* Configuration.defaults (make_defaults) and writes only into its copy: the Default layer `cls` is the same
\* constant for all of them, whatever files the earlier constructions have read.
\* con = [kind, files, cmd, load]; load = FALSE is Configuration(load_config=False): no file is read.
Absents(n) == [k \in 1..n |-> "absent"]
ConFiles(con) == IF con.load THEN con.files ELSE <<>>
StartCon(con, base) ==
   [LayerInit(con.kind, ConFiles(con), con.cmd, Absents(Len(ConFiles(con))), "absent", FALSE) EXCEPT !.store = base]
HistInit(cons) == [cons |-> cons, k |-> 1, cls |-> <<"d">>, results |-> <<>>, cur |-> StartCon(cons[1], <<"d">>)]
HistDone(h) == h.k > Len(h.cons)
HistStep(h) ==
   IF HistDone(h) THEN h
   ELSE IF ~LayerDone(h.cur) THEN [h EXCEPT !.cur = LayerStep(h.cur)]      \* works on the copy: h.cls is not touched
   ELSE [h EXCEPT !.results = Append(@, h.cur.store), !.k = @ + 1,
                  !.cur = IF h.k + 1 <= Len(h.cons) THEN StartCon(h.cons[h.k + 1], h.cls) ELSE @]

\* ---- the command line as a sequence of option occurrences [opt, val].  For the kinds whose command-line form
\* replaces, an option given several times takes its last value.  A value-less colour switch (`--color` without a
\* value = its const, `--no-color`, `-C`) is one occurrence of the option "color" and nothing else: it consumes no
\* neighbour and ends nothing, wherever it stands (first, between options, before a -D define, last).
CmdOf(argv, opt) == LET S == {k \in DOMAIN argv : argv[k].opt = opt} IN
                    IF S = {} THEN "absent" ELSE argv[MaxOf(S)].val
InsertAt(argv, k, item) == SubSeq(argv, 1, k - 1) \o <<item>> \o SubSeq(argv, k, Len(argv))
BareColor == [opt |-> "color", val |-> "const"]

\* ---- the rule the property states
Assigned(files) == {k \in DOMAIN files : files[k] # "absent"}
Resolve(files, cmd) == IF cmd # "absent" THEN <<CTok(cmd)>>
                       ELSE IF Assigned(files) # {} THEN <<FTok(files[MaxOf(Assigned(files))])>>
                       ELSE <<"d">>
\* the statement does not order configuration files among themselves: any assigning file may win
FileCandidates(files) == {<<FTok(files[k])>> : k \in Assigned(files)}

\* ---- names are case-sensitive keys.  A user data name (and an option key of a file's [behave] section) spelled in
\* another case is ANOTHER key: each key of `keys` is resolved from its own assignments only (fa, ca: key -> assignment
\* in the file / by -D); a key nobody assigns is not defined, a miscased option key leaves the option unmentioned.
KeysResolve(fa, ca) == [k \in DOMAIN fa |-> Resolve(<<fa[k]>>, ca[k])]

\* concrete value of a token sequence; vals: record d, fv1, fv2, cv1, cv2, forced of string sequences
RECURSIVE Concrete(_,_)
Concrete(vals, toks) == IF toks = <<>> THEN <<>> ELSE vals[Head(toks)] \o Concrete(vals, Tail(toks))
\* "list-valued file options keep their order", as a relation that tolerates any merging:
\* the items of the file's list that occur in the result occur in the file's order
OrderKept(filelist, obs) == Filter(obs, Range(filelist)) = Filter(filelist, Range(obs))

\* ========================================================================
\* 2. FORMAT / OUTFILES COUPLING inside one file (format_outfiles_coupling)
\* ========================================================================
\* nf formatters, no outfiles named in the file; result: which outfile stands at position k
Couple(nf, no) ==
   IF nf = 0 THEN [k \in 1..no |-> [auto |-> FALSE, ix |-> k]]                 \* no "format": untouched
   ELSE [k \in 1..nf |-> IF k <= no THEN [auto |-> FALSE, ix |-> k]            \* too many outfiles: truncated
                         ELSE [auto |-> TRUE, ix |-> k]]                        \* missing ones: "<format>.output"

\* ========================================================================
\* 3. PATHS  (a path = [abs |-> BOOLEAN, segs |-> sequence of segment strings])
\* ========================================================================
PNormStep(stack, s, abs) ==
   IF s = "." \/ s = "" THEN stack
   ELSE IF s = ".." THEN (IF stack # <<>> /\ stack[Len(stack)] # ".." THEN SubSeq(stack, 1, Len(stack) - 1)
                          ELSE IF abs THEN stack ELSE Append(stack, ".."))
   ELSE Append(stack, s)
RECURSIVE PNormRun(_,_,_)
PNormRun(stack, segs, abs) == IF segs = <<>> THEN stack
                              ELSE PNormRun(PNormStep(stack, Head(segs), abs), Tail(segs), abs)
PNorm(p)    == [abs |-> p.abs, segs |-> PNormRun(<<>>, p.segs, p.abs)]           \* os.path.normpath
PJoin(d, p) == IF p.abs THEN p ELSE [abs |-> d.abs, segs |-> d.segs \o p.segs]   \* os.path.join
\* what the code stores for a path p named in a file whose dirname is d
FilePath(d, p) == PNorm(PJoin(d, p))
\* where a path lands for a process with working directory cwd (absolute)
Lands(cwd, p) == PNorm(PJoin(cwd, p))
\* the property: p is resolved relative to the directory of the file
Required(cwd, d, p) == Lands(Lands(cwd, d), p)

\* ========================================================================
\* 4. USER DEFINES  -D NAME=VALUE
\* ========================================================================
Quotes == {"\"", "'"}
True4  == <<"t", "r", "u", "e">>
RECURSIVE LStrip(_)
LStrip(s) == IF s # <<>> /\ Head(s) = " " THEN LStrip(Tail(s)) ELSE s
RECURSIVE RStrip(_)
RStrip(s) == IF s # <<>> /\ s[Len(s)] = " " THEN RStrip(SubSeq(s, 1, Len(s) - 1)) ELSE s
Strip(s) == RStrip(LStrip(s))
\* unqote(): a text that starts and ends with the same quote character loses both (a lone quote becomes empty)
Unquote(s) == IF s # <<>> /\ s[1] \in Quotes /\ s[Len(s)] = s[1] THEN SubSeq(s, 2, Len(s) - 1) ELSE s
HasEq(s)   == \E k \in DOMAIN s : s[k] = "="
FirstEq(s) == MinOf({k \in DOMAIN s : s[k] = "="})
\* ---- what parse_user_define() does
ParseDefine(s) ==
   LET t == Strip(s) IN
   IF HasEq(t) THEN LET u == Unquote(t)
                        e == FirstEq(u)
                    IN [name  |-> Strip(SubSeq(u, 1, e - 1)),
                        value |-> Unquote(Strip(SubSeq(u, e + 1, Len(u))))]
   ELSE [name |-> t, value |-> True4]

\* ---- the documented forms.  NAME: letters only; VALUE: anything that neither starts nor ends with a
\* blank or a quote (possibly empty); P1..P6 blanks; q one quote character.
\*   bare    P1 NAME P4                               -> (NAME, "true")
\*   plain   P1 NAME P2 = P3 VALUE P4                 -> (NAME, VALUE)
\*   qpair   P1 q P5 NAME P2 = P3 VALUE P6 q P4       -> (NAME, VALUE)
\*   qvalue  P1 NAME P2 = P3 q VALUE q P4             -> (NAME, VALUE)
Blanks(n) == [k \in 1..n |-> " "]
Render(form, n, v, q, pads) ==
   LET P(k) == Blanks(pads[k]) IN
   CASE form = "bare"   -> P(1) \o n \o P(4)
     [] form = "plain"  -> P(1) \o n \o P(2) \o <<"=">> \o P(3) \o v \o P(4)
     [] form = "qpair"  -> P(1) \o <<q>> \o P(5) \o n \o P(2) \o <<"=">> \o P(3) \o v \o P(6) \o <<q>> \o P(4)
     [] form = "qvalue" -> P(1) \o n \o P(2) \o <<"=">> \o P(3) \o <<q>> \o v \o <<q>> \o P(4)
RenderValue(form, v) == IF form = "bare" THEN True4 ELSE v
IsLetter(c) == c \in {"a", "b", "c", "x", "y", "z"}
NameOK(n) == n # <<>> /\ \A k \in DOMAIN n : IsLetter(n[k])
ValOK(v)  == v = <<>> \/ (v[1] \notin Quotes \cup {" "} /\ v[Len(v)] \notin Quotes \cup {" "})
\* ---- recogniser of the documented forms, written with index sets (independent of the strip/unquote recursion)
NonBlank(s) == {k \in DOMAIN s : s[k] # " "}
Trim(s) == IF NonBlank(s) = {} THEN <<>> ELSE SubSeq(s, MinOf(NonBlank(s)), MaxOf(NonBlank(s)))
Quoted(s) == Len(s) >= 2 /\ s[1] \in Quotes /\ s[Len(s)] = s[1]
Doc(s) ==
   LET t == Trim(s) IN
   IF ~HasEq(t) THEN [wf |-> NameOK(t), name |-> t, value |-> True4]
   ELSE LET oq == Quoted(t)
            u  == IF oq THEN SubSeq(t, 2, Len(t) - 1) ELSE t
            e  == FirstEq(u)
            n  == Trim(SubSeq(u, 1, e - 1))
            w  == Trim(SubSeq(u, e + 1, Len(u)))
            vq == Quoted(w)
            v  == IF vq THEN SubSeq(w, 2, Len(w) - 1) ELSE w
        IN [wf |-> NameOK(n) /\ ValOK(v) /\ ~(oq /\ vq), name |-> n, value |-> v]

\* ========================================================================
\* 5. TYPED GETTERS  (UserData.getint / getfloat / getbool / getas)
\* ========================================================================
Digits == {"0", "1", "2", "3", "4", "5", "6", "7", "8", "9"}
DigitVal(c) == CASE c = "0" -> 0 [] c = "1" -> 1 [] c = "2" -> 2 [] c = "3" -> 3 [] c = "4" -> 4
                 [] c = "5" -> 5 [] c = "6" -> 6 [] c = "7" -> 7 [] c = "8" -> 8 [] c = "9" -> 9
AllDigits(s) == \A k \in DOMAIN s : s[k] \in Digits
RECURSIVE NatVal(_)
NatVal(s) == IF s = <<>> THEN 0 ELSE 10 * NatVal(SubSeq(s, 1, Len(s) - 1)) + DigitVal(s[Len(s)])
Signed(t) == t # <<>> /\ t[1] \in {"+", "-"}
\* int(text): optional padding, optional sign, one or more digits
IntParse(s) ==
   LET t == Trim(s)
       body == IF Signed(t) THEN Tail(t) ELSE t
   IN IF body # <<>> /\ AllDigits(body)
      THEN [ok |-> TRUE, neg |-> Signed(t) /\ t[1] = "-" /\ NatVal(body) > 0, mag |-> NatVal(body)]
      ELSE [ok |-> FALSE, neg |-> FALSE, mag |-> 0]
\* float(text) for plain decimals, with the shortest repr() of the result (short decimals are their own repr)
RECURSIVE DropLeadingZeros(_)
DropLeadingZeros(s) == IF Len(s) > 1 /\ Head(s) = "0" THEN DropLeadingZeros(Tail(s)) ELSE s
RECURSIVE DropTrailingZeros(_)
DropTrailingZeros(s) == IF Len(s) > 1 /\ s[Len(s)] = "0" THEN DropTrailingZeros(SubSeq(s, 1, Len(s) - 1)) ELSE s
FloatParse(s) ==
   LET t == Trim(s)
       body == IF Signed(t) THEN Tail(t) ELSE t
       dots == {k \in DOMAIN body : body[k] = "."}
       dot  == IF dots = {} THEN Len(body) + 1 ELSE MinOf(dots)
       ip   == SubSeq(body, 1, dot - 1)
       fp   == SubSeq(body, dot + 1, Len(body))
       ok   == Cardinality(dots) <= 1 /\ AllDigits(ip) /\ AllDigits(fp) /\ Len(ip) + Len(fp) >= 1
   IN IF ok THEN [ok |-> TRUE,
                  repr |-> (IF Signed(t) /\ t[1] = "-" THEN <<"-">> ELSE <<>>)
                           \o DropLeadingZeros(IF ip = <<>> THEN <<"0">> ELSE ip) \o <<".">>
                           \o DropTrailingZeros(IF fp = <<>> THEN <<"0">> ELSE fp)]
      ELSE [ok |-> FALSE, repr |-> <<>>]
\* parse_bool(text): lower-cased, stripped member of the documented word lists
Lower(c) == CASE c = "T" -> "t" [] c = "R" -> "r" [] c = "U" -> "u" [] c = "E" -> "e" [] c = "Y" -> "y" [] c = "S" -> "s"
              [] c = "O" -> "o" [] c = "N" -> "n" [] c = "F" -> "f" [] c = "A" -> "a" [] c = "L" -> "l" [] OTHER -> c
LowerSeq(s) == [k \in DOMAIN s |-> Lower(s[k])]
TrueWords  == {<<"t","r","u","e">>, <<"y","e","s">>, <<"o","n">>, <<"1">>}
FalseWords == {<<"f","a","l","s","e">>, <<"n","o">>, <<"o","f","f">>, <<"0">>}
BoolParse(s) == LET t == Trim(LowerSeq(s)) IN
                [ok |-> t \in TrueWords \cup FalseWords, b |-> t \in TrueWords]
\* outcome of ONE getter call on a stored text, uniformly typed: converted value (ok) or ValueError (~ok)
Outcome(g, s) ==
   IF g \in {"int", "as"} THEN LET p == IntParse(s) IN [ok |-> p.ok, ty |-> "int", neg |-> p.neg, mag |-> p.mag, repr |-> <<>>]
   ELSE IF g = "float" THEN LET p == FloatParse(s) IN [ok |-> p.ok, ty |-> "float", neg |-> FALSE, mag |-> 0, repr |-> p.repr]
   ELSE LET p == BoolParse(s) IN [ok |-> p.ok, ty |-> "bool", neg |-> FALSE, mag |-> IF p.ok /\ p.b THEN 1 ELSE 0, repr |-> <<>>]
\* a history of getter calls on ONE UserData object: a getter reads the stored text, it never writes it,
\* so every call sees the original text whatever was asked before
GetInit(s, calls) == [store |-> s, calls |-> calls, k |-> 1, outs |-> <<>>]
GetDone(h) == h.k > Len(h.calls)
GetStep(h) == IF GetDone(h) THEN h
              ELSE [h EXCEPT !.outs = Append(@, Outcome(h.calls[h.k], h.store)), !.k = @ + 1]      \* h.store untouched
=============================================================================
