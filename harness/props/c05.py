"""C05 -- parser error discipline: only ParserError, with a usable line number.

(S) specs/GherkinParser.tla   (MC) specs/GherkinParser_MC.tla   judge: specs/GherkinParser_Trace.tla
TLC feeds EVERY sequence of line classes up to the bound from every entry point (feature, rule, scenario, steps,
tags) to the line machine and checks NoCrash / ErrorLineInRange (known defects are named by narrow predicates) and
emits each sequence with its predicted outcome class.  The driver renders every sequence to text (seeded language
pair, random payloads), runs the real entry point and records the outcome class; plus single-line mutations of
well-formed documents, catalogued fault injections at every position, and seeded soups.  TLC judges the rows."""
import json
import random

from vlib import trace
from gherkin import render, observe, docs

QUICK_LANGS = ["en", "de", "zh-CN", "ja", "ht", "ru", "ar", "en-pirate"]
ENTRIES = ["feature", "rule", "scenario", "steps", "tags"]
WORKERS = int(__import__("os").environ.get("VERIF_WORKERS", "16"))


class Renderer(object):
    """chooses language pairs / aliases / payloads for abstract line sequences (C05: unambiguous renderings)"""

    def __init__(self, rnd, pool):
        self.rnd = rnd
        self.pool = [l for l in pool if self.usable(l)]
        self.partner = {}
        self.good = {}

    def usable(self, name):
        good = render.unambiguous_aliases(render.lang(name), None)
        return render.has_star(name) and all(good[k] for k in good)

    def pair(self):
        l1 = self.rnd.choice(self.pool)
        if l1 not in self.partner:
            cands = sorted(l for l in render.languages() if l != l1)
            random.Random(len(l1) * 7919 + len(cands)).shuffle(cands)
            self.partner[l1] = [l for l in cands if self.usable(l) and render.disjoint_pair_ok(l1, l)][:6]
        return l1, self.rnd.choice(self.partner[l1])

    def aliases(self, name, other):
        key = (name, other)
        if key not in self.good:
            self.good[key] = render.unambiguous_aliases(render.lang(name), None)
        return self.good[key]

    def text(self, entry, lines, l1=None, l2=None):
        """-> (text, decorated spec lines, l1, l2)"""
        rnd = self.rnd
        if l1 is None:
            l1, l2 = self.pair()
        a, b = render.lang(l1), render.lang(l2)
        texts = render.Texts(rnd, safe_for=(l1, l2))
        out, spec = [], []
        pid = 10
        for k, ln0 in enumerate(lines):
            ln = dict(ln0)
            ln["ps"] = list(range(pid, pid + len(ln0.get("ps", []))))
            pid += len(ln["ps"]) + 1
            mine, other = (l2, l1) if ln.get("lg", 1) == 2 else (l1, l2)
            good = self.aliases(mine, other)
            if ln["c"] in render.STRUCT:
                ln["alias"] = rnd.choice(good[ln["c"]])
            elif ln["c"] == "Step":
                ln["alias"] = rnd.choice(good[ln["a"]])
            if ln["c"] == "_":
                ln["blank"] = rnd.choice([u"", u"   ", u"\t"])
            t, kw = render.to_text(ln, a, b, texts, rnd)
            ln["kw"] = kw
            if ln["c"] != "_":
                t += rnd.choice([u"", u"", u"", u" ", u"\t", u"   "])           # trailing blanks are legal everywhere
            out.append(t)
            spec.append(render.spec_line(ln))
        eol = rnd.choice(render.EOLS)
        text = eol.join(out)
        if out and rnd.random() < 0.5:
            text += eol
        return text, spec, l1, l2


def observe_row(rid, entry, text, spec, l1, fl=0, first=None):
    """first = (entry, text) of a parse that the SAME Parser object has to go through before (its outcome is ignored)"""
    if first is None:
        obs, _ = observe.outcome(entry, text, language=l1)
    else:
        from behave.parser import Parser
        parser = Parser(l1)
        observe.outcome(first[0], first[1], parser=parser)
        obs, _ = observe.outcome(entry, text, parser=parser)
    obs = dict(obs)
    at = obs.pop("at")
    return {"id": rid, "entry": entry, "lines": spec, "nl": len(text.splitlines()), "obs": obs, "fl": fl, "raw": False}, at


def mutations(lines, alphabet, rnd, limit):
    """all single-line delete / duplicate / swap / truncate mutations and a seeded choice of inserts"""
    n = len(lines)
    out = []
    for k in range(n):
        out.append(("delete", lines[:k] + lines[k + 1:], 0))
        out.append(("duplicate", lines[:k + 1] + lines[k:], 0))
        out.append(("truncate", lines[:k], 0))
        if k + 1 < n:
            out.append(("swap", lines[:k] + [lines[k + 1], lines[k]] + lines[k + 2:], 0))
    for k in range(n + 1):
        for a in alphabet:
            out.append(("insert", lines[:k] + [a["ln"]] + lines[k:], k + 1))
    if limit and len(out) > limit:
        out = rnd.sample(out, limit)
    return out


def soup(rnd, alphabet, bases):
    """a random text of <= 40 lines: a well-formed document with 0..6 random line edits, or a pure random walk"""
    by = {a["code"]: a["ln"] for a in alphabet}
    if rnd.random() < 0.75 and bases:
        lines = list(rnd.choice(bases))
        for _ in range(rnd.randint(0, 6)):
            k = rnd.randint(0, len(lines))
            what = rnd.random()
            if what < 0.5 or not lines:
                lines.insert(k, rnd.choice(alphabet)["ln"])
            elif what < 0.75:
                del lines[min(k, len(lines) - 1)]
            else:
                lines[min(k, len(lines) - 1)] = rnd.choice(alphabet)["ln"]
    else:
        lines = [by["F"]] if rnd.random() < 0.6 else []
        for _ in range(rnd.randint(0, 30)):
            lines.append(rnd.choice(alphabet)["ln"])
    return lines[:40]


def sig_of(v, row, at):
    clause = v[2]
    o = row["obs"]
    if clause == "C05.internal":
        return "%s|entry=%s|exc=%s|at=%s" % (clause, row["entry"], o["exc"], at)
    if clause == "C05.line_range":
        where = "0" if o["n"] == 0 else ("<1" if o["n"] < 1 else ">nl")
        return "%s|entry=%s|line=%s" % (clause, row["entry"], where)
    if clause == "C05.fault_line":
        fl = v[4] if len(v) > 4 else row["fl"]
        got = o["k"] if o["k"] != "error" else "error@%+d" % (o["n"] - fl)
        return "%s|entry=%s|fault=%s|obs=%s" % (clause, row["entry"], v[3] if len(v) > 3 else "?", got)
    return "%s|entry=%s" % (clause, row["entry"])


def reuse_pairs(cases, by_code, rnd, n):
    """(first, second) sequences for two parses on one Parser object: the first one preferably ends inside a table /
    doc-string / with pending tags or with an error, the second one is any sequence"""
    ok = [c for c in cases if c["e"] in ("feature", "steps", "scenario", "rule") and "L" not in c["s"] and c["s"]]
    hot = [c for c in ok if c["k"] == "error" or c["s"][-1] in ("T1", "T2", "Tb", "D", "Q", "@", "E", "t")]
    seconds = [c for c in ok if c["e"] in ("feature", "steps")]
    # aborted in the middle of a table / doc-string: the parser holds a pending table / pending lines
    pending = [c for c in ok if c["k"] == "error" and c["why"] in ("Malformed table", "BAD-INDENT in multiline text")] or hot
    out = []
    for _ in range(n):
        r = rnd.random()
        a = rnd.choice(pending if r < 0.4 else (hot if r < 0.85 else ok))
        b = rnd.choice(seconds if rnd.random() < 0.8 else ok)
        out.append(((a["e"], [by_code[x] for x in a["s"]]), (b["e"], [by_code[x] for x in b["s"]])))
    return out


_STATE = {}


def _job(job):
    """render + observe one abstract line sequence (runs in a worker process; seeded per row)"""
    rid, kind, entry, lines, fl, seed, pool = job[:7]
    first = job[7] if len(job) > 7 else None
    rr = _STATE.get("rr")
    if rr is None or _STATE.get("pool") != pool:
        rr = _STATE["rr"] = Renderer(random.Random(0), pool)
        _STATE["pool"] = pool
        observe.quiet_logging()
    rr.rnd = random.Random(seed * 1000003 + rid)
    if first is not None:
        text1, _, l1, l2 = rr.text(first[0], first[1])
        text, spec, l1, l2 = rr.text(entry, lines, l1, l2)
        row, at = observe_row(rid, entry, text, spec, l1, fl, (first[0], text1))
        return row, {"kind": kind, "entry": entry, "text": text, "l1": l1, "l2": l2, "at": at, "first": [first[0], text1]}
    text, spec, l1, l2 = rr.text(entry, lines)
    if kind == "cut":
        # one line of the rendered text truncated inside (fl = line, seeded position; a table row may end right behind a
        # backslash, a doc-string fence may lose a quote, a keyword its colon ...).  No abstract line sequence describes such
        # a text: the row is judged by the outcome-class clauses only (raw)
        parts = text.splitlines(True)
        k = min(fl, len(parts)) - 1
        if k >= 0:
            body = parts[k].rstrip("\r\n")
            eol = parts[k][len(body):]
            stripped = body.rstrip()
            # cut positions that matter most: right behind every backslash / pipe / quote, else anywhere
            hot = [i + 1 for i, ch in enumerate(stripped) if ch in u'\\|"@:<'] + [len(stripped) - 1]
            cands = [c for c in hot if 0 < c < len(body)] or list(range(1, max(2, len(body))))
            cutat = rr.rnd.choice(cands) if rr.rnd.random() < 0.7 else rr.rnd.randint(1, max(1, len(body) - 1))
            parts[k] = body[:cutat] + eol
            text = u"".join(parts)
        row, at = observe_row(rid, entry, text, [], l1, 0)
        row["raw"] = True
        return row, {"kind": kind, "entry": entry, "text": text, "l1": l1, "l2": l2, "at": at, "first": None}
    row, at = observe_row(rid, entry, text, spec, l1, fl)
    return row, {"kind": kind, "entry": entry, "text": text, "l1": l1, "l2": l2, "at": at, "first": None}


def run_jobs(jobs, procs):
    if procs <= 1 or len(jobs) < 2000:
        return [_job(j) for j in jobs]
    import multiprocessing
    ctx = multiprocessing.get_context("fork")
    with ctx.Pool(procs) as pool:
        return pool.map(_job, jobs, chunksize=500)


def run(chk):
    observe.quiet_logging()
    rnd = random.Random(chk.seed)
    quick = chk.quick()
    cfg = "GherkinParser_MC_quick.cfg" if quick else "GherkinParser_MC_thorough.cfg"
    r = chk.tlc("GherkinParser_MC", cfg, timeout=840, workers=WORKERS, heap="8g")
    for name in r.violated:
        chk.violation("C05.design." + name, "design:%s" % name, "TLC: invariant %s violated in GherkinParser_MC (%s)" % (name, cfg))
    alphabet = json.loads(r.by_tag("ALPHA")[0][1])
    by_code = {a["code"]: a["ln"] for a in alphabet}
    cases = [{"e": t[1], "s": t[2], "k": t[3], "n": t[4], "why": t[5], "site": t[6], "kf": t[7]} for t in r.by_tag("CASE")]
    cases.sort(key=lambda c: (c["e"], c["s"]))
    chk.exhaustive = True
    pool = list(QUICK_LANGS)
    others = sorted(l for l in render.languages() if l not in pool)
    pool += rnd.sample(others, 6 if quick else len(others))
    pool = tuple(l for l in pool if render.has_star(l))

    jobs = []

    def add(kind, entry, lines, fl=0):
        jobs.append((len(jobs) + 1, kind, entry, lines, fl, chk.seed, pool))

    # (1) every enumerated sequence
    for c in cases:
        add("enum", c["e"], [by_code[x] for x in c["s"]])
    n_enum = len(jobs)
    # (2) well-formed documents: mutations + catalogued fault injections at every position
    bases = docs.base_documents(chk, rnd, quick, by_code)
    per_doc = 300 if quick else 1500
    for base in bases:
        add("base", "feature", base)
        for kind, lines, fl in mutations(base, alphabet, rnd, per_doc):
            add(kind, "feature", lines, fl)
        # ... and truncations INSIDE a line: every line of the document, a few seeded cut positions each
        for k in range(len(base)):
            for _ in range(2 if quick else 6):
                add("cut", "feature", base, k + 1)
    # fragments for the secondary entry points
    frags = docs.fragments(by_code)
    for entry, base in frags:
        add("base", entry, base)
        for kind, lines, fl in mutations(base, alphabet, rnd, 150 if quick else 600):
            add(kind, entry, lines, fl)
        for k in range(len(base)):
            add("cut", entry, base, k + 1)
    # (3) soups
    for _ in range(4000 if quick else 60000):
        entry = rnd.choice(["feature"] * 6 + ["rule", "scenario", "steps", "steps", "tags"])
        add("soup", entry, soup(rnd, alphabet, bases if entry == "feature" else [b for e, b in frags if e == entry]))

    # (4) two parses on ONE Parser object (behave re-uses feature.parser for context.execute_steps): the second one is judged
    for first, (entry, lines) in reuse_pairs(cases, by_code, rnd, 3000 if quick else 40000):
        jobs.append((len(jobs) + 1, "reuse", entry, lines, 0, chk.seed, pool, first))

    done = run_jobs(jobs, min(WORKERS, 8))
    rows = [d[0] for d in done]
    meta = {d[0]["id"]: d[1] for d in done}
    verdicts = trace.judge_rows(chk, "GherkinParser_Trace", rows, chunks=WORKERS)
    chk.impl_traces = len(rows)
    chk.evaluations = len(rows)
    byid = {row["id"]: row for row in rows}
    faults, div, div_enum = {}, 0, 0
    diverged = set()
    for m, c, res in chk.tlc_runs:
        if m != "GherkinParser_Trace":
            continue
        for t in res.by_tag("FAULT"):
            faults[t[2]] = faults.get(t[2], 0) + 1
        for t in res.by_tag("DIV"):
            div += 1
            diverged.add(t[1])
            if meta[t[1]]["kind"] == "enum":
                div_enum += 1
            if div <= 3:
                chk.note("prediction mismatch: %s predicted %s observed %s text=%r" % (
                    meta[t[1]]["entry"], t[2:], byid[t[1]]["obs"], meta[t[1]]["text"][:200]))
    chk.divergences = div
    flat = sorted(((len(meta[i]["text"]), i, v) for i, vs in verdicts.items() for v in vs), key=lambda x: x[:2])
    for _, i, v in flat:
        if True:
            m = meta[i]
            row = byid[i]
            sig = sig_of(v, row, m["at"])
            if m["kind"] == "reuse" and i in diverged:       # a fresh parser behaves differently: the earlier parse leaked
                sig += "|reused-parser"
            chk.violation(v[2], sig,
                          "entry=%s language=%s text=%s observed=%s%s" % (m["entry"], m["l1"], json.dumps(m["text"]), json.dumps(row["obs"]),
                                                                          " after %s on the same Parser object: %s" % (m["first"][0], json.dumps(m["first"][1])) if m["first"] else ""),
                          {"row": row, "meta": {k: m[k] for k in ("kind", "entry", "text", "l1", "l2", "first")}})
    for row in rows[:1] + rows[n_enum // 2:n_enum // 2 + 1] + rows[-1:]:
        chk.sample({"entry": row["entry"], "text": meta[row["id"]]["text"], "language": meta[row["id"]]["l1"], "observed": row["obs"]})
    chk.rule = ("every line-class sequence of length <= MaxLen over the alphabet from 5 entry points (TLC, exhaustive, pruned below "
                "error prefixes), each rendered once; + single-line mutations and fault injections of well-formed documents; + soups; "
                "+ pairs of parses on one Parser object (second one judged)")
    chk.extra["distinct_nontrivial"] = len({(m["entry"], m["text"]) for m in meta.values()})
    chk.extra["enumerated_sequences"] = n_enum
    chk.extra["enumerated_prediction_mismatches"] = div_enum
    chk.extra["base_documents"] = len(bases)
    chk.extra["catalogued_faults_judged"] = faults
    chk.extra["rows_by_kind"] = {k: sum(1 for m in meta.values() if m["kind"] == k) for k in sorted({m["kind"] for m in meta.values()})}
    chk.extra["predicted_known_defect_sequences"] = sum(1 for c in cases if c["kf"])
    chk.extra["observed_outcomes"] = {k: sum(1 for r_ in rows if r_["obs"]["k"] == k) for k in ("accept", "error", "internal", "timeout")}
    chk.extra["languages"] = sorted({m["l1"] for m in meta.values()})
    chk.extra["predicted_error_reasons"] = {w: sum(1 for c in cases if c["k"] == "error" and c["why"] == w)
                                            for w in sorted({c["why"] for c in cases if c["k"] == "error"})}
    reasons = ["AND-STEP REQUIRES a previous step", "BAD-INDENT in multiline text", "Examples must only appear inside scenario outline",
               "Malformed table", "Multi-line text before any step", "TABLE-START without step detected", "bad tag",
               "Background supports no tags", "Second Background"]
    chk.extra["spec_error_branches_never_reached"] = [w for w in reasons if not any(c["k"] == "error" and c["why"] == w for c in cases)]
    chk.extra["predicted_crash_sites"] = {w: sum(1 for c in cases if c["k"] == "crash" and c["site"] == w)
                                          for w in sorted({c["site"] for c in cases if c["k"] == "crash"})}
    chk.assumptions = ["renderings for C05 use only aliases that the keyword table (longest keyword first) reads as intended (alias handling is C04's subject)",
                       "languages without a '* ' alias (en-tx, sl, ml) are not used for soups",
                       "the language ARGUMENT of the entry points is always a known language (only the text is hostile)",
                       "fault positions are those of the catalogue in GherkinParser_Trace.FaultKind; keyword lines that the grammar "
                       "absorbs as description lines (e.g. a second Feature line directly after a Scenario line) are not faults"]


def replay(chk, payload):
    observe.quiet_logging()
    row = payload["replay"]["row"]
    m = payload["replay"]["meta"]
    first = m.get("first")
    new, at = observe_row(1, m["entry"], m["text"], row["lines"], m["l1"], row.get("fl", 0), tuple(first) if first else None)
    verdicts = trace.judge_rows(chk, "GherkinParser_Trace", [new], chunks=1)
    chk.impl_traces = 1
    div = any(res.by_tag("DIV") for mname, c, res in chk.tlc_runs if mname == "GherkinParser_Trace")
    for vs in verdicts.values():
        for v in vs:
            if v[0] == "VERDICT":
                chk.violation(v[2], sig_of(v, new, at) + ("|reused-parser" if first and div else ""), "replayed entry=%s text=%s observed=%s" % (m["entry"], json.dumps(m["text"]), json.dumps(new["obs"])),
                              {"row": new, "meta": m})
    chk.sample({"replayed": m, "observed": new["obs"]})
