INIT Init
NEXT Next
CONSTANTS
  MaxRules = 2
  MaxScen = 3
  MaxEx = 2
  MaxSteps = 3
  MaxStmts = 8
  MaxStepsTot = 14
  MaxLines = 95
  MaxElems = 8
  LayoutsF = {"none"}
  Layouts = {"none"}
  Hows = {"none"}
  Descs = {0}
  StepKws = {"given", "and"}
  Args <- ArgsNone
  ExVariants = {"2x2"}
  Gaps = {"none"}
INVARIANT Faithful
INVARIANT Neutral
INVARIANT Emit
