\* cleanup alphabet: push pop add_cleanup (3 callables x raising x bare/args x layer) use_fixture (4 kinds)
INIT Init
NEXT Next
CONSTANTS
  OpsAt <- Ops2222
  UNames = {1}
  Vals = {1}
  WithFailed = FALSE
  WithRoot = FALSE
  WithUseOr = FALSE
  WithReads = FALSE
  WithMode = FALSE
  WithExec = FALSE
  MaxIds = 3
  ArgModes = {0, 1}
  WithFixtures = TRUE
  WithAttrs = FALSE
  NestSet <- NestNone
  TwoRuns = FALSE
  OpsB = 0
  EqualLayers = FALSE
  UseOrRoot = FALSE
INVARIANT Visible
INVARIANT Shadow
INVARIANT DeleteLocal
INVARIANT ScopeEnd
INVARIANT RootAttr
INVARIANT CleanupOnce
INVARIANT CleanupLifo
INVARIANT CleanupDespiteErrors
INVARIANT CleanupLayer
INVARIANT FixtureCleanup
INVARIANT ExecStepsRestore
INVARIANT ApiErrors
INVARIANT Shape
INVARIANT ViewsAgree
INVARIANT Emit
