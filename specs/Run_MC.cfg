INIT Init
NEXT Next
INVARIANT CtxMirrorsStack
INVARIANT DoneMeansUnwound
INVARIANT PropsHold
INVARIANT Emit
