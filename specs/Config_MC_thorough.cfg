INIT Init
NEXT Next
CONSTANTS
  MaxDefine = 7
  MaxFiles = 3
  MaxPad = 2
  MaxGetter = 4
  MaxPath = 3
  MaxHist = 3
  MaxSeq = 3
INVARIANT KeysAreCaseSensitive
INVARIANT ColourSwitchIsLocal
INVARIANT GetterHistory
INVARIANT HistoryIndependent
INVARIANT Precedence
INVARIANT FilesInOrder
INVARIANT AppendExtends
INVARIANT UserdataOverride
INVARIANT ForcedOnlyByMode
INVARIANT DefineLaw
INVARIANT DefineAgree
INVARIANT BareIsTrue
INVARIANT PathLaw
INVARIANT CoupleLaw
INVARIANT GetterLaw
INVARIANT Emit
