INIT Init
NEXT Next
CONSTANTS
  MaxLen = 3
  NB = 64
INVARIANT PoolParse
INVARIANT AlgEqDef
INVARIANT RunIsNegation
INVARIANT CompositeAny
INVARIANT CacheSound
INVARIANT CacheFollowsCurrent
INVARIANT LookupKeepsKnowledge
INVARIANT NotIgnored
INVARIANT ProviderTransparent
INVARIANT ParseLaw
INVARIANT SchemaSeparation
INVARIANT VOLaw
INVARIANT MalformedNeverMatches
INVARIANT EmitPool
INVARIANT Emit
