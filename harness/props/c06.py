# -*- coding: utf-8 -*-
"""C06 -- Scenario Outline expansion: one scenario per row, exact placeholder substitution.

(S) specs/Outline.tla   (P)+(MC) specs/Outline_MC.tla   judge: specs/Outline_Trace.tla
TLC enumerates every outline of the bounded family (templates with placeholders at every position class x
<=2 examples blocks x <=2 rows x 2 columns in both orders x 4 cell values) and, from the history bases, every
op sequence Access | AddRow | AddCol of the stated length; it proves the design-level laws (sequential replace ==
simultaneous substitution, code expansion == demanded expansion, count/order, isolation, cache coherence) and
emits every abstract outline / history together with the expansion the code model predicts.
The driver renders each abstract outline to feature text, parses it with the real parse_feature(), snapshots the
template, reads outline.scenarios, records the generated scenarios and the snapshot afterwards; histories modify
the examples tables through the public Table API between accesses.  TLC (Outline_Trace) judges the rows with the
definitional simultaneous substitution.  Python renders, runs and records -- it never decides."""
import copy
import json
import os
import shutil
import tempfile

from vlib import trace
from vlib.tlc import TlcError

WORKERS = int(os.environ.get("VERIF_TLC_WORKERS") or 8)
TLC_ENV = {"LC_ALL": "C.UTF-8"}          # the emitted cases contain non-ASCII cell values
FEATURE_FILE = "c06.feature"
STEP_KEYWORDS = ["Given", "When", "Then", "And", "And", "And"]


# ---------------------------------------------------------------- abstract -> concrete
def txt(tokens):
    return u"".join(tokens)


UC_TOKEN, UC_CHAR = u"~e", u"\u00e9"     # Outline_MC writes the unicode value as an ASCII token (see UC there)


def norm(x):
    """decode a case emitted by Outline_MC: UC token -> the unicode character; an empty container is an empty
    sequence (ToJson may print an empty function as {})"""
    if isinstance(x, dict):
        if not x:
            return []
        return {k: norm(v) for k, v in x.items()}
    if isinstance(x, list):
        return [norm(v) for v in x]
    if isinstance(x, str):
        return x.replace(UC_TOKEN, UC_CHAR)
    return x


def table_line(cells, indent):
    return indent + u"| " + u" | ".join(cells) + u" |"


def render(o):
    """feature text of an abstract outline; the layout is the one of Outline.tla (WithLines), the row lines that
    TLC computed are checked against the lines actually written (disagreement = machinery failure)"""
    lines = [u"Feature: F"]
    if o["tags"]:
        lines.append(u"  " + u" ".join(u"@" + txt(t) for t in o["tags"]))
    lines.append(u"  Scenario Outline: " + txt(o["name"]))
    for k, st in enumerate(o["steps"]):
        lines.append(u"    %s %s" % (STEP_KEYWORDS[k], txt(st["name"])))
        if st["doc"]:
            lines.append(u'      """')
            for dl in txt(st["doc"]).split(u"\n"):
                lines.append(u"      " + dl)
            lines.append(u'      """')
        if st["th"]:
            lines.append(table_line([txt(c) for c in st["th"]], u"      "))
            for r in st["tr"]:
                lines.append(table_line([txt(c) for c in r], u"      "))
    for blk in o["blocks"]:
        if blk["tags"]:
            lines.append(u"    " + u" ".join(u"@" + txt(t) for t in blk["tags"]))
        lines.append((u"    Examples: " + txt(blk["name"])).rstrip())
        lines.append(table_line(blk["cols"], u"      "))
        if len(lines) != blk["hline"]:
            raise RuntimeError("layout: heading written at line %d, Outline.tla says %d" % (len(lines), blk["hline"]))
        for row in blk["rows"]:
            if row["gap"] == 1:
                lines.append(u"      # -- a comment line inside the examples table")
            elif row["gap"] == 2:
                lines.append(u"")
            lines.append(table_line([txt(c) for c in row["cells"]], u"      "))
            if len(lines) != row["line"]:
                raise RuntimeError("layout: row written at line %d, Outline.tla says %d" % (len(lines), row["line"]))
    return u"\n".join(lines) + u"\n"


# ---------------------------------------------------------------- observation (public attributes only)
def S(x):
    if x is None:
        return u""
    if isinstance(x, str):
        return str(x)
    return repr(x)


def I(x):
    return int(x) if isinstance(x, int) and not isinstance(x, bool) else 0


def proj_step(st):
    table = getattr(st, "table", None)
    return {"name": S(st.name), "doc": S(getattr(st, "text", None)),
            "th": [S(c) for c in table.headings] if table is not None else [],
            "tr": [[S(c) for c in r.cells] for r in table.rows] if table is not None else []}


def proj_scenario(sc):
    return {"name": S(sc.name), "tags": [S(t) for t in sc.tags], "line": I(sc.line),
            "steps": [proj_step(st) for st in sc.steps]}


def snapshot(outline):
    blocks = []
    for ex in outline.examples:
        table = ex.table
        blocks.append({"name": S(ex.name), "tags": [S(t) for t in ex.tags],
                       "cols": [S(c) for c in table.headings] if table is not None else [],
                       "hline": I(table.line) if table is not None else 0,
                       "rows": [{"cells": [S(c) for c in r.cells], "line": I(r.line)} for r in table.rows]
                       if table is not None else []})
    return {"name": S(outline.name), "tags": [S(t) for t in outline.tags],
            "steps": [proj_step(st) for st in outline.steps], "blocks": blocks}


def observe(rid, case):
    """run one abstract outline + history against the real code"""
    from behave.parser import parse_feature
    from behave.model import ScenarioOutline
    ops = [dict(op, obsline=0, exc="") for op in case["ops"]]
    row = {"id": rid, "kind": case["kind"], "o": case["o"], "schema": case["schema"], "ops": ops, "acc": [], "exc": ""}
    text = render(case["o"])
    try:
        feature = parse_feature(text, filename=FEATURE_FILE)
        outline = feature.scenarios[0]
        if not isinstance(outline, ScenarioOutline):
            raise TypeError("no ScenarioOutline")
    except Exception as e:                                   # not C06's business: the judge prints NOTJUDGED
        row["kind"] = "unparsed"
        row["exc"] = type(e).__name__
        return row, text
    for op in ops:
        if op["op"] == "access":
            pre = snapshot(outline)
            exc = ""
            scen = []
            try:
                scen = [proj_scenario(sc) for sc in outline.scenarios]
            except Exception as e:
                exc = type(e).__name__
                scen = []
            row["acc"].append({"pre": pre, "post": snapshot(outline), "scen": scen, "exc": exc})
            continue
        try:
            table = outline.examples[op["b"] - 1].table
            if op["op"] == "addrow":
                cells = [txt(c) for c in op["cells"]]
                form = op.get("form") or "list"
                if form == "tuple":
                    cells = tuple(cells)
                elif form == "row":                         # a behave.model.Row object, e.g. taken from another table
                    from behave.model import Row
                    cells = Row(list(table.headings), cells)
                if op["line"]:
                    table.add_row(cells, line=op["line"])
                else:
                    table.add_row(cells)
                op["obsline"] = I(table.rows[-1].line)
            else:
                values = [txt(c) for c in op["cells"]]
                if values:
                    table.add_column(op["name"], values=values, default_value=txt(op["dflt"]))
                else:
                    table.add_column(op["name"], default_value=txt(op["dflt"]))
        except Exception as e:
            op["exc"] = type(e).__name__
            break
    return row, text


# ---------------------------------------------------------------- the name annotation schema, as behave configures it
class SchemaSetter(object):
    """scenario_outline_annotation_schema of a behave.ini -> Configuration.setup_model() -> ScenarioOutline"""

    def __init__(self, chk):
        from behave.model import ScenarioOutline
        self.chk = chk
        self.original = ScenarioOutline.annotation_schema
        self.scratch = tempfile.mkdtemp(prefix="verif-c06-")
        self.fallbacks = 0

    def use(self, sno, schema_tokens):
        from behave.model import ScenarioOutline
        ScenarioOutline.annotation_schema = self.original
        if sno == 1:
            return                                          # behave's built-in default, nothing configured
        text = txt(schema_tokens)
        cwd = os.getcwd()
        d = tempfile.mkdtemp(dir=self.scratch)
        try:
            with open(os.path.join(d, "behave.ini"), "w", encoding="utf-8") as fh:
                fh.write(u"[behave]\nscenario_outline_annotation_schema = %s\n" % text)
            os.chdir(d)
            try:
                from behave.configuration import Configuration
                Configuration(command_args=[])
            except Exception as e:                          # the configuration layer is not C06's subject
                self.fallbacks += 1
                self.chk.note("Configuration() raised %s; schema set on ScenarioOutline directly" % type(e).__name__)
                ScenarioOutline.annotation_schema = text
        finally:
            os.chdir(cwd)
            shutil.rmtree(d, ignore_errors=True)

    def close(self):
        from behave.model import ScenarioOutline
        ScenarioOutline.annotation_schema = self.original
        try:
            from behave.tag_expression import TagExpressionProtocol
            TagExpressionProtocol.use(TagExpressionProtocol.DEFAULT)
        except Exception:
            pass
        shutil.rmtree(self.scratch, ignore_errors=True)


# ---------------------------------------------------------------- judge plumbing
def judge(chk, rows, chunks):
    first = len(chk.tlc_runs)
    verdicts = trace.judge_rows(chk, "Outline_Trace", rows, chunks=chunks, env=TLC_ENV)
    notjudged = {}
    for _, _, r in chk.tlc_runs[first:]:
        for t in r.by_tag("NOTJUDGED"):
            notjudged.setdefault(t[1], []).append(t)
    return verdicts, notjudged


def signature(v, case):
    # <<"VERDICT", id, clause, access number, position, demanded>>
    return "%s|pos=%s|access=%s|kind=%s" % (v[2], v[4], "first" if v[3] <= 1 else "later", case["kind"])


def describe(case, row, text, v):
    n = v[3]
    acc = row["acc"][n - 1] if 0 < n <= len(row["acc"]) else {}
    seen = [{"name": s["name"], "tags": s["tags"], "line": s["line"], "steps": s["steps"]} for s in acc.get("scen", [])]
    return ("clause %s at position '%s' (access %d) demanded=%r; schema=%r ops=%s feature=%r observed=%s exc=%r" % (
        v[2], v[4], n, v[5] if len(v) > 5 else "", txt(case["schema"]),
        json.dumps([{k: op.get(k, "") for k in ("op", "b", "cells", "line", "name", "dflt", "form")} for op in case["ops"]], ensure_ascii=False),
        text, json.dumps(seen, ensure_ascii=False), acc.get("exc", "")))


def corrupt_rows(good):
    """copies of one correct recorded row, each falsified in one observable; the judge must reject every one"""
    out = []

    def variant(expect, f):
        r = copy.deepcopy(good)
        f(r["acc"][0])
        out.append((expect, r))
    variant("C06.subst", lambda a: a["scen"][0]["steps"][0].__setitem__("name", a["scen"][0]["steps"][0]["name"] + u"!"))
    variant("C06.line", lambda a: a["scen"][0].__setitem__("line", a["scen"][0]["line"] + 1))
    variant("C06.tags", lambda a: a["scen"][0].__setitem__("tags", a["scen"][0]["tags"][:-1]))
    variant("C06.count_order", lambda a: a.__setitem__("scen", a["scen"][:-1]))
    variant("C06.count_order", lambda a: a.__setitem__("scen", a["scen"][::-1]))
    variant("C06.annotation", lambda a: a["scen"][0].__setitem__("name", u"?"))
    variant("C06.isolation", lambda a: a["post"].__setitem__("name", a["post"]["name"] + u"x"))
    variant("C06.unchanged_text", lambda a: a["scen"][0]["steps"][-1].__setitem__("name", u"changed"))
    return out


def judge_selftest(chk, rows, cases):
    """machinery check: a judge that accepts falsified rows must never count as a pass"""
    good = None
    for row in rows:
        c = cases[row["id"]]
        if (c["kind"] == "main" and c["t"] == 1 and c["sno"] != 2 and len(row["acc"]) == 1
                and len(row["acc"][0]["scen"]) >= 2 and all(blk["tags"] and u"<" not in txt(blk["name"]) for blk in row["o"]["blocks"])):
            good = row
            break
    if good is None:
        raise TlcError("C06 judge self test: no suitable recorded row")
    variants = corrupt_rows(good)
    test_rows = [dict(good, id=1)] + [dict(r, id=k + 2) for k, (_, r) in enumerate(variants)]
    verdicts, _ = judge(chk, test_rows, 1)
    if verdicts.get(1):
        return                                              # the good row itself is violated: reported by the main run
    for k, (expect, _) in enumerate(variants):
        got = {v[2] for v in verdicts.get(k + 2, [])}
        if expect not in got:
            raise TlcError("C06 judge self test: falsified row %d (%s) was not rejected, verdicts %s" % (k, expect, sorted(got)))
    chk.extra["judge_selftest_rows_rejected"] = len(variants)


# ---------------------------------------------------------------- run / replay
def run_cases(chk, cases_in_order):
    """observe every case (grouped by schema), returns rows, texts"""
    setter = SchemaSetter(chk)
    rows, texts, cases = [], {}, {}
    try:
        current = None
        for rid, case in cases_in_order:
            if case["sno"] != current:
                current = case["sno"]
                setter.use(current, case["schema"])
            row, text = observe(rid, case)
            rows.append(row)
            texts[rid] = text
            cases[rid] = case
    finally:
        setter.close()
    chk.extra["schema_configuration_fallbacks"] = setter.fallbacks
    return rows, texts, cases


def report(chk, rows, texts, cases, verdicts, notjudged):
    byid = {row["id"]: row for row in rows}
    for rid, vs in sorted(verdicts.items()):
        for v in sorted(vs, key=lambda t: json.dumps(t[2:])):
            chk.violation(v[2], signature(v, cases[rid]), describe(cases[rid], byid[rid], texts[rid], v),
                          {"case": cases[rid]})
    if notjudged:
        chk.divergences += len(notjudged)
        rid = sorted(notjudged)[0]
        chk.note("%d of %d rows with an access that was not judged (the template before the access is not the abstract "
                 "outline: parser, or an isolation violation at an earlier access), e.g. %s feature=%r" % (
            len(notjudged), len(rows), notjudged[rid][0][2:], texts[rid]))
        if len(notjudged) == len(rows):
            raise TlcError("C06: no row could be judged")


def run(chk):
    cfg = "Outline_MC_quick.cfg" if chk.quick() else "Outline_MC_thorough.cfg"
    r = chk.tlc("Outline_MC", cfg, timeout=1200 if chk.quick() else 2400, workers=WORKERS, env=TLC_ENV)
    for name in r.violated:
        chk.violation("C06.design." + name, "design:%s" % name, "TLC: invariant %s violated in Outline_MC (%s)" % (name, cfg))
    emitted = [norm(json.loads(t[1])) for t in r.by_tag("CASE")]
    if not emitted:
        raise TlcError("Outline_MC emitted no case")
    # TLC's workers print in any order: a canonical order makes ids, samples and replays reproducible
    emitted.sort(key=lambda c: (c["sno"], c["kind"], json.dumps(c, sort_keys=True)))
    chk.exhaustive = True
    rows, texts, cases = run_cases(chk, list(enumerate(emitted, 1)))

    # spec prediction (code model) vs observation: informational
    accesses = scenarios = positions = 0
    for row in rows:
        preds = cases[row["id"]]["preds"]
        for k, acc in enumerate(row["acc"]):
            accesses += 1
            scenarios += len(acc["scen"])
            for s in acc["scen"]:
                positions += 2 + len(s["tags"]) + sum(2 + len(st["th"]) + sum(len(x) for x in st["tr"]) for st in s["steps"])
            if k >= len(preds) or preds[k] != acc["scen"]:
                chk.divergences += 1
    verdicts, notjudged = judge(chk, rows, WORKERS)
    judge_selftest(chk, rows, cases)
    report(chk, rows, texts, cases, verdicts, notjudged)

    chk.impl_traces = accesses
    chk.evaluations = positions
    nontrivial = set()
    for row in rows:
        if any(acc["scen"] for acc in row["acc"]):
            nontrivial.add(json.dumps([texts[row["id"]], row["schema"], cases[row["id"]]["ops"]], sort_keys=True))
    chk.extra["distinct_nontrivial"] = len(nontrivial)
    chk.extra["outlines"] = sum(1 for c in emitted if c["kind"] == "main")
    chk.extra["histories"] = sum(1 for c in emitted if c["kind"] == "hist")
    chk.extra["generated_scenarios_judged"] = scenarios
    chk.extra["templates_used"] = sorted({c["t"] for c in emitted})
    chk.extra["schemas_used"] = sorted({c["sno"] for c in emitted})
    chk.extra["rows_not_judged"] = len(notjudged)
    for row in rows[:1] + rows[len(rows) // 2:len(rows) // 2 + 1] + rows[-1:]:
        chk.sample({"feature": texts[row["id"]], "schema": txt(row["schema"]),
                    "ops": [op["op"] for op in row["ops"]],
                    "observed": [[(s["name"], s["tags"], s["line"]) for s in acc["scen"]] for acc in row["acc"]]})
    chk.rule = ("every outline of the bound (5 templates with placeholders in name / step name / doc-string / step-table "
                "heading and cell / tag; 0-2 examples blocks x 0-2 rows x columns a,b in both orders x cell values "
                "{empty, x, e-acute, other column's name}; 6 annotation schemas and block names/tags rotating with the "
                "case) and every op sequence Access|AddRow|AddCol of length HistLen from the history bases, all "
                "enumerated by TLC; each row carries the full projection of every generated scenario and the template "
                "snapshots; evaluations = text positions compared; distinct = distinct (feature text, schema, ops) "
                "with at least one generated scenario")
    chk.assumptions = [
        "cell values and literal template text contain no angle brackets (quantifier: the sequential replace of the code "
        "re-substitutes a cell that is itself a placeholder -- shown by an ASSUME in Outline_MC, not judged)",
        "behave's pseudo-columns <row.id> <row.index> <examples.name> <examples.index> are used in the outline name, step "
        "names and tags only (the code does not substitute them in doc-strings and step tables: statement silent); the "
        "examples name is the block's own name with the row's cells; Examples names use <column> placeholders only",
        "an outline tag that still contains an unknown placeholder after substitution may be dropped or kept (not asserted)",
        "C06.tags/C06.subst on tags only for rows whose referenced cells are tag-safe (Tag.make_name: blank -> _, others dropped)",
        "identity of the cached list between two accesses without modification is not asserted (statement silent)",
        "the schema reaches ScenarioOutline through behave.ini -> Configuration.setup_model(); no Background, no Rule",
    ]


def replay(chk, payload):
    case = norm(payload["replay"]["case"])
    rows, texts, cases = run_cases(chk, [(1, case)])
    verdicts, notjudged = judge(chk, rows, 1)
    report(chk, rows, texts, cases, verdicts, notjudged)
    chk.impl_traces = len(rows[0]["acc"])
    chk.sample({"replayed_feature": texts[1], "schema": txt(case["schema"]), "ops": [op["op"] for op in case["ops"]],
                "observed": [[(s["name"], s["tags"], s["line"]) for s in acc["scen"]] for acc in rows[0]["acc"]]})
